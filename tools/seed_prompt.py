#!/usr/bin/env python3
"""Writes the prompt for a seeding sub-agent (given only the property text and its own worktree)."""
import json, sys, os
ROOT = os.path.dirname(os.path.dirname(os.path.abspath(__file__)))
TEMPLATE = open(os.path.join(ROOT, "tools", "seed_prompt.txt")).read()
props = {json.loads(l)["id"]: json.loads(l) for l in open(os.path.join(ROOT, "properties.jsonl"))}
for pid in sys.argv[1:]:
    p = props[pid]
    text = f"Property {pid}: {p['title']}\n\nStatement: {p['statement']}\n\nQuantified over: {p['quantifier']['text']}\n"
    suffix = os.environ.get("SEED_SUFFIX", "")
    wt = f"/tmp/seed-{pid}{suffix}"
    open(f"/tmp/prompt-{pid}{suffix}.txt", "w").write(TEMPLATE.replace("{wt}", wt).replace("{prop}", text))
    print(f"/tmp/prompt-{pid}{suffix}.txt")
