#!/usr/bin/env python3
"""Validate a seeded change produced by a sub-agent and run checks against it.

usage: tools/seed_eval.py <dir with patch.diff, demo.py, notes.md> <seed-id> <property> [--checks C01 C02 ...] [--skip-validate]

1. validation in a fresh scratch worktree of /repo (outside /repo and /verif): demo passes without
   the patch, fails with it, the full test-suite still passes (only the 3 known environment failures);
2. the change is kept as /verif/seeded/<seed-id>/ (patch.diff, demo.py, notes.md, meta.json);
3. the listed checks (quick tier) are run against the patched scratch worktree (PYTHONPATH=<wt>/src,
   which is what `git -C /repo apply` would give, without touching /repo); verdicts go to meta.json.
The scratch worktree is removed at the end.
"""
import argparse, json, os, shutil, subprocess, sys, time

ROOT = os.path.dirname(os.path.dirname(os.path.abspath(__file__)))
KNOWN_ENV_FAILS = {
    "tests/test_function_representation.py::test_get_label_translator_wrong_kwarg",
    "tests/test_regression_test.py::test_regression_test",
    "tests/test_stochastic.py::test_get_lcm_function_with_simulate_target",
}


def sh(cmd, cwd=None, env=None, timeout=3600):
    e = dict(os.environ)
    if env:
        e.update(env)
    r = subprocess.run(cmd, cwd=cwd, env=e, capture_output=True, text=True, timeout=timeout)
    return r.returncode, r.stdout, r.stderr


def main():
    ap = argparse.ArgumentParser()
    ap.add_argument("src")
    ap.add_argument("seed_id")
    ap.add_argument("prop")
    ap.add_argument("--checks", nargs="*", default=None)
    ap.add_argument("--skip-validate", action="store_true")
    ap.add_argument("--skip-tests", action="store_true")
    a = ap.parse_args()
    wt = f"/tmp/ev-{a.seed_id}"
    if os.path.exists(wt):
        sh(["git", "-C", "/repo", "worktree", "remove", "--force", wt])
    rc, out, err = sh(["git", "-C", "/repo", "worktree", "add", "--detach", wt, "HEAD", "-q"])
    assert rc == 0, err
    env = {"PYTHONPATH": f"{wt}/src", "LCM_REPO": wt, "PYTHONHASHSEED": "0", "VERIF_EVIDENCE_DIR": f"/tmp/ev-{a.seed_id}-evidence", "VERIF_REPLAY_DIR": f"/tmp/ev-{a.seed_id}-replay"}
    dst = os.path.join(ROOT, "seeded", a.seed_id)
    meta_path = os.path.join(dst, "meta.json")
    meta = json.load(open(meta_path)) if os.path.exists(meta_path) else {}
    meta.update({"seed_id": a.seed_id, "property": a.prop, "base_commit": sh(["git", "-C", "/repo", "rev-parse", "--short", "HEAD"])[1].strip()})
    try:
        patch = os.path.abspath(os.path.join(a.src, "patch.diff"))
        demo = os.path.abspath(os.path.join(a.src, "demo.py"))
        if not a.skip_validate:
            t0 = time.time()
            rc0, o0, e0 = sh(["/venv/bin/python", demo], cwd=wt, env=env)
            rca, oa, ea = sh(["git", "apply", patch], cwd=wt)
            if rca != 0:
                print("PATCH DOES NOT APPLY:", ea)
                meta["validation"] = {"ok": False, "reason": "patch does not apply: " + ea[:300]}
                return finish(meta, dst, a, None)
            rc1, o1, e1 = sh(["/venv/bin/python", demo], cwd=wt, env=env)
            meta["validation"] = {"demo_exit_without_patch": rc0, "demo_exit_with_patch": rc1, "demo_tail_with_patch": (o1 + e1)[-600:]}
            print(f"demo: without patch exit {rc0}, with patch exit {rc1} ({time.time() - t0:.0f}s)")
            if not a.skip_tests:
                t0 = time.time()
                rct, ot, et = sh(["/venv/bin/python", "-m", "pytest", "-q", "-p", "no:cacheprovider", "--timeout=900", "-rf"], cwd=wt, env=env)
                fails = {l.split(" ")[1] for l in ot.splitlines() if l.startswith("FAILED ")}
                new = sorted(fails - KNOWN_ENV_FAILS)
                tail = [l for l in ot.splitlines() if " passed" in l or " failed" in l][-1:]
                meta["validation"].update({"tests_summary": tail, "new_test_failures": new})
                print(f"tests: {tail} new failures: {new} ({time.time() - t0:.0f}s)")
            else:
                new = []
            ok = rc0 == 0 and rc1 != 0 and not new
            meta["validation"]["ok"] = ok
            if not ok:
                print("VALIDATION FAILED - change not kept")
                return finish(meta, dst, a, None)
        else:
            rca, oa, ea = sh(["git", "apply", patch], cwd=wt)
            assert rca == 0, ea
        os.makedirs(dst, exist_ok=True)
        for f in ("patch.diff", "demo.py", "notes.md"):
            if os.path.exists(os.path.join(a.src, f)) and os.path.abspath(os.path.join(a.src, f)) != os.path.abspath(os.path.join(dst, f)):
                shutil.copy(os.path.join(a.src, f), os.path.join(dst, f))
        verdicts = meta.get("checks", {})
        for c in a.checks or [a.prop]:
            t0 = time.time()
            rc, o, e = sh(["/venv/bin/python", "-m", "mc.run", c, "--tier", "quick"], cwd=ROOT, env=env, timeout=3600)
            lines = [l.strip() for l in o.splitlines() if l.startswith("VIOLATION") or l.startswith("  case=")]
            verdicts[c] = {"exit": rc, "verdict": {0: "missed", 1: "caught"}.get(rc, f"exit{rc}"), "first": lines[:2], "wall_s": round(time.time() - t0)}
            print(f"check {c}: {verdicts[c]['verdict']} ({verdicts[c]['wall_s']}s)")
            for l in lines[:2]:
                print("    " + l[:300])
            if rc not in (0, 1):
                print((o + e)[-1500:])
        meta["checks"] = verdicts
        meta["how_run"] = "checks were run with PYTHONPATH=<scratch worktree with the patch applied>/src (identical to `git -C /repo apply patch.diff` followed by the quick commands, without touching /repo); evidence files written by these runs were discarded"
        return finish(meta, dst, a, verdicts)
    finally:
        sh(["git", "-C", "/repo", "worktree", "remove", "--force", wt])
        # evidence/replay files written by runs against a mutated tree go to scratch dirs and are removed
        shutil.rmtree(f"/tmp/ev-{a.seed_id}-evidence", ignore_errors=True)
        shutil.rmtree(f"/tmp/ev-{a.seed_id}-replay", ignore_errors=True)


def finish(meta, dst, a, verdicts):
    if verdicts is not None or os.path.isdir(dst):
        os.makedirs(dst, exist_ok=True)
        json.dump(meta, open(os.path.join(dst, "meta.json"), "w"), indent=1)
    else:
        rej = os.path.join(ROOT, "seeded", "_rejected")
        os.makedirs(rej, exist_ok=True)
        json.dump(meta, open(os.path.join(rej, a.seed_id + ".json"), "w"), indent=1)
    return 0


if __name__ == "__main__":
    sys.exit(main())
