#!/usr/bin/env python3
"""Run checks against the hand-written mutation catalogue (mutations/catalogue.json).

Each entry: {"id", "property" (or list), "file", "old", "new", "only" (optional case filter),
"note"}.  The mutation is applied to /repo's working tree, the quick check is run, and the
tree is restored with `git checkout -- <file>` in a finally block.  Verdicts are written to
mutations/results.json (documentation of detection, not evidence).

usage: tools/mutate.py [--prop C18] [--id M18a ...]
"""
import argparse, json, os, subprocess, sys, time

ROOT = os.path.dirname(os.path.dirname(os.path.abspath(__file__)))
REPO = "/repo"


def main():
    ap = argparse.ArgumentParser()
    ap.add_argument("--prop")
    ap.add_argument("--id", nargs="*")
    ap.add_argument("--tier", default="quick")
    a = ap.parse_args()
    cat = json.load(open(os.path.join(ROOT, "mutations", "catalogue.json")))
    respath = os.path.join(ROOT, "mutations", "results.json")
    results = json.load(open(respath)) if os.path.exists(respath) else {}
    dirty = subprocess.check_output(["git", "-C", REPO, "status", "--porcelain"], text=True).strip()
    if dirty:
        sys.exit("refusing to run: /repo has uncommitted changes:\n" + dirty)
    for m in cat:
        props = m["property"] if isinstance(m["property"], list) else [m["property"]]
        if a.prop and a.prop not in props:
            continue
        if a.id and m["id"] not in a.id:
            continue
        path = os.path.join(REPO, m["file"])
        src = open(path).read()
        if src.count(m["old"]) != 1:
            print(f"{m['id']}: pattern occurs {src.count(m['old'])} times in {m['file']} - skipped")
            results[m["id"]] = {"verdict": "pattern-mismatch"}
            continue
        try:
            open(path, "w").write(src.replace(m["old"], m["new"]))
            for p in props:
                if a.prop and p != a.prop:
                    continue
                cmd = ["/venv/bin/python", "-m", "mc.run", p, "--tier", a.tier]
                if m.get("only"):
                    cmd += ["--only", m["only"]]
                t0 = time.time()
                env = dict(os.environ, VERIF_EVIDENCE_DIR="/tmp/mutate-evidence", VERIF_REPLAY_DIR="/tmp/mutate-replay")
                r = subprocess.run(cmd, cwd=ROOT, capture_output=True, text=True, env=env)
                lines = [l for l in r.stdout.splitlines() if l.startswith("VIOLATION") or l.startswith("  case=")]
                verdict = {0: "MISSED", 1: "caught"}.get(r.returncode, f"exit{r.returncode}")
                print(f"{m['id']} [{p}] {verdict} ({time.time() - t0:.0f}s) {m.get('note', '')}")
                for l in lines[:2]:
                    print("    " + l[:260])
                if r.returncode not in (0, 1):
                    print(r.stdout[-800:], r.stderr[-800:])
                results[f"{m['id']}@{p}"] = {"verdict": verdict, "first": lines[:2], "note": m.get("note", ""), "file": m["file"]}
        finally:
            subprocess.check_call(["git", "-C", REPO, "checkout", "--", m["file"]])
    json.dump(results, open(respath, "w"), indent=1, sort_keys=True)


if __name__ == "__main__":
    main()
