#!/usr/bin/env python3
"""Regenerates /verif/MANIFEST.json from the table below (single source of truth)."""
import json, os

ROOT = os.path.dirname(os.path.dirname(os.path.abspath(__file__)))
PY = "/venv/bin/python"

CHECKS = {
    "C01": dict(
        engine="E1-family-explorer",
        technique="bounded exhaustive enumeration of model programs (all feature vectors within Hamming distance 2 of a base model) executed on the real solver; step-wise and end-to-end conformance with a reference Bellman model in every grid state",
        text="Every model of the complete deviation-bounded family Family_2(B0) (about 1070 programs: filters incl. period-dependent and mixed ones, dense+restricted discrete choices, 0-3 continuous choices, states without feasible choice (T=1, value -inf), linear/log/extrapolating grids, 2-D interpolation, stochastic states with all dependency orders, constraints, auxiliary chains, parameter-name collisions, declaration orders, T in 1..4) is solved by the real get_lcm_function/solve and every entry of every period's value array is compared with an independent reference Bellman backup (step-wise on lcm's own V_{t+1} and end-to-end), under two parameter valuations and, for Family_1, with jit off. Exhaustive within the stated bound; nothing is claimed for larger grids or between the enumerated parameter values.",
        note="trusted: numpy, the reference model mc/refmodel.py, the model generator mc/family.py; tolerance 1e-9 relative; CPU/x64 only; unsupported models (as decided by the reference) are skipped and counted",
        design="§4 C01",
    ),
    "C02": dict(
        engine="E1-family-explorer",
        technique="bounded exhaustive enumeration of model programs x all grid states (+off-grid copies) as agents, real jitted simulation; every simulated row checked against the reference objective over all grid choice combinations",
        text="Every model of Family_1(B0) and of Family_2 restricted to the interaction-prone features (filters, dense discrete choice, 0-2 continuous choices of unequal size, stochastic states, constraints, grid types) is simulated by the real code with every in-space grid state and an off-grid copy of it as agents, with lcm's own value arrays and with a synthetic non-monotone value array; for every (period, agent) row the reported choices must be grid values, feasible, and attain the reference maximum, and the value column must equal it. Exhaustive within the bound.",
        note="trusted: reference objective in mc/refmodel.py; any maximiser within 1e-9 is accepted; rows with -inf reference maximum are excluded and counted; jit on only (as the property states)",
        design="§4 C02",
    ),
    "C18": dict(
        engine="E2-primitive-explorer",
        technique="exhaustive enumeration of all arrays over {0,1,2} x all masks x all axis subsets / all contiguous segmentations / all variable layouts on the real primitives (jit+vmap and eager), nested-loop reference; fused clause over an expression x vector-length alphabet and every Family_1 model",
        text="Axis tuples are enumerated in ascending AND every non-ascending order. argmax: every array over {0,1,2} (and {-inf,0,1.5}) of shapes up to 6 cells, every mask, every non-empty axis subset, jitted+vmapped and eagerly; segment_argmax: every contiguous segmentation of <= 5 rows (0-2 trailing axes) x every array over {0,1,2}; reducers built by get_solve_discrete_problem for all 100+ layouts of restricted/unrestricted states and choices derived from real processed models; fused-input clause: arg-max taken inside the same jit as 8 expressions x 15 SIMD-remainder lengths, and the real policy functions of every Family_1 model on all grid states. Over 1e6 oracle evaluations, all enumerated, none sampled.",
        note="XLA's fusion decisions cannot be enumerated; the fused clause is bounded by the expression/length alphabet and the model family",
        design="§4 C18",
    ),
    "C19": dict(
        engine="E2-primitive-explorer",
        technique="exhaustive enumeration of all signatures (<=4 params, 3 kinds) x all ordered subsets of mapped names x output pytrees on the real dispatchers/wrappers; nested Python loops with an injective positional code as reference",
        text="Wrappers are additionally run on f(a,b,c) with every legal pattern of defaulted and keyword-only parameters x every ordered subset of supplied keywords (reject or bind by name). productmap, vmap_1d, spacemap and the functools wrappers are run for every signature with 1-4 parameters (thorough 5) of the three parameter kinds in every legal order, every ordered subset of mapped names, every dense/sparse/put_dense_first split, scalar/tuple/dict outputs, every keyword order, every positional/keyword split and every single missing, unexpected or duplicated argument; each result is compared entry by entry with nested loops.",
        note="*args/**kwargs signatures are outside the alphabet; vmap_1d is called directly only for signatures without keyword-only parameters",
        design="§4 C19",
    ),
    "C20": dict(
        engine="E2-primitive-explorer",
        technique="exhaustive enumeration of all arrays over a 6-value magnitude alphabet (<=5 cells) x all choice-axis subsets x all contiguous segmentations x scales, plus all ordered pairs of same-size segmentations as call sequences, on the real aggregation functions; extended-precision reference",
        text="_calculate_emax_extreme_value_shocks and _segment_logsumexp are evaluated on every array over {-1e6,-3,0,1e-3,2,1e6} for every shape with <= 5 cells (structured arrays for larger shapes), every non-empty choice-axis subset, every contiguous segmentation of <= 5 rows, 9 scales from 1e-6 to 1e3 and 3 shifts; each result must be finite, equal the longdouble log-sum-exp to 1e-9, lie in [max, max+s*log n], obey the shift law and the s->0 limit, and segment layout must equal axis layout; every ordered pair of distinct segmentations with equal row and segment counts is aggregated back to back in one process and both results are compared with the reference.",
        note="numpy.longdouble reference; magnitudes <= 1e6",
        design="§4 C20",
    ),
    "C14": dict(
        engine="E2-primitive-explorer",
        technique="exhaustive enumeration of spaces (all non-empty feasibility masks over 4 shapes x unrestricted discrete states x 0-3 linear/log axes) x full product of a per-axis evaluation lattice on the real get_function_representation; reference lookup + multilinear interpolation",
        text="For every restricted-state shape in {(2),(3),(2,2),(2,3)} EVERY non-empty feasibility mask (88) combined with 0-2 unrestricted discrete states and 0-1 continuous axes, and for 5 restricted configurations ALL 15 combinations of 0-3 linear/log axes, the real function representation is evaluated (vmapped eagerly, jitted, scalar; with and without input prefix) on every feasible label combination x the full product of {nodes, mid-points, quarter points, 2 points below/above a linear grid} for two arrays, and compared with an independent lookup+interpolation reference: node reproduction, piecewise linearity and linear continuation follow point-wise.",
        note="SpaceInfo objects are constructed directly from lcm's dataclasses; infeasible restricted combinations are never evaluated; log grids only inside their range",
        design="§4 C14",
    ),
    "C15": dict(
        engine="E2-primitive-explorer",
        technique="exhaustive enumeration of array shapes (ranks 1-4) x full product of a coordinate lattice, and of a (type,start,length,n) grid alphabet x value lattice, on the real map_coordinates / get_coordinate; multilinear reference",
        text="map_coordinates is evaluated for all 39 shapes over sizes {2,3,4} (ranks 1-3) and all 16 shapes over {2,3} (rank 4) on the full product of the per-axis lattice {-1.5,-1,-0.5,0,0.25,...,n-1,n-0.5,n+0.5} (batched list, batched 2-d array, scalar calls, integer arrays) against a 2^rank-neighbour blend with linear continuation; for 36 grids x 6 sizes the coordinate of every node must be its index, coordinates must increase strictly along a value lattice (nodes, quarter points, outside points for linear grids) and interpolating the grid at the coordinate of a value must return the value.",
        note="tolerance 1e-9 relative; log grids inside their range only",
        design="§4 C15",
    ),
    "C16": dict(
        engine="E2-primitive-explorer",
        technique="exhaustive enumeration of all (start, stop, n_points) triples over a 20x20x10 alphabet of numeric and non-numeric values for both grid classes, of every n_points in 2..64 (256) x all ordered pairs of 11 finite bounds, and of all dataclasses with 1-3 fields over an 11-value alphabet, on the real constructors",
        text="All 8000 constructions of LinspaceGrid/LogspaceGrid over the alphabet (negative, zero, fractional, large, non-finite, bool, numpy scalar, string, None, complex) and all 1463 category dataclasses (plus non-dataclasses) are executed: each must raise GridInitializationError or materialise to exactly n finite, strictly increasing, equally spaced values with the specified end points; discrete grids must be accepted iff the field values are numerically 0,1,2,... in declaration order and then materialise to these codes. No other exception type is tolerated. A size sweep materialises every n_points from 2 to 64 (thorough: 256) for every ordered pair of 11 finite bounds (incl. non-dyadic) and requires exact end points for linear grids.",
        note="tolerances follow the precision of the returned array (bool bounds make jnp compute in float32); sub-normal bounds outside the alphabet",
        design="§4 C16",
    ),
    "C17": dict(
        engine="E2-primitive-explorer",
        technique="exhaustive enumeration of all filter truth tables over the cells of 9 restricted-variable shapes (complete up to 8 cells, capped above), realised as period-indexed lookup filters of real processed models and passed through the real create_state_choice_space; deviation-bounded configuration space",
        text="Every truth table over <= 8 cells (and a stated capped set for 12 and 16 cells; all 4096 in the thorough tier) is one period of a real model (variable names chosen so that canonical order differs from alphabetical order) whose filter is a lookup table indexed by _period; the stored combinations, the state indexer, the choice segments and the dense grids returned by create_state_choice_space are compared with a reference enumeration in row-major canonical order. Configurations: one filter / conjunction of two / filter through an auxiliary function (known finding K4), with/without unrestricted discrete and continuous variables declared between the restricted ones, is_last_period, jit_filter - all 24 combinations for small shapes, base + single deviations for larger ones. Pipeline clause: for every Family_1 model with restricted variables the per-period spaces and the (shifted) state indexers held by the function returned by get_lcm_function(jit=False) are compared with the reference enumeration of that period.",
        note="caps are reported in the evidence (exhaustive=false); K4 is matched by configuration split=aux + ValueError missing params only",
        design="§4 C17",
    ),
    "C03": dict(
        engine="E1-family-explorer",
        technique="bounded exhaustive enumeration of model programs x all grid states as agents x all one-hot (identifying) transition arrays, real simulation; every (agent, period pair, state) checked against the reference evaluation of the transition functions",
        text="Every model of Family_1(B0) and Family_2 on the interaction-prone features is simulated with every in-space grid state and an off-grid copy as agents (3 seeds for stochastic models). For every agent and every consecutive period pair the deterministic next states must equal the reference evaluation of the transition function at that agent's own states, reported choices, period and parameters; period-0 columns must equal the supplied arrays. For stochastic states every one-hot transition array (all of them up to 64; 5 for distance-2 models in the quick tier) turns the draw into a deterministic function of the selected row, so the row selection (dependency order, period index, agent alignment) is decided exactly; an array with zero entries checks that zero-probability labels never occur.",
        note="trusted: reference resolver; integers exact, floats 1e-12",
        design="§4 C03",
    ),
    "C06": dict(
        engine="E1-family-explorer",
        technique="bounded exhaustive enumeration of model programs with agents on every grid state; differential oracle between lcm's own solve arrays and simulated values, and between solve_and_simulate and simulate(solve) frames",
        text="For Family_1(B0), Family_2 on the interaction-prone features and Family_1 of the fully discrete base (thorough: Family_2 of both), under two parameter valuations, agents are placed on every in-space grid state; the simulated value of every row whose state lies on the grid (all rows for fully discrete models) must equal the entry of lcm's own solved array at that state, and the frame of target solve_and_simulate must equal cell for cell the frame of simulate(vf_arr_list=solve(params)) from three separate get_lcm_function calls.",
        note="no reference values involved; the layout contract (checked by C05) locates the entry; 1e-12 relative for values",
        design="§4 C06",
    ),
    "C13": dict(
        engine="E1-family-explorer",
        technique="exhaustive enumeration of all 64 subsets of additional targets x agents {1,2,5} x T 1..4 on three base models plus empty/full/singleton sets on Family_1; every row and column of the returned frame checked",
        text="On three base models (continuous, fully discrete, stochastic) with T in 1..4 and 1, 2 or 5 agents ALL 64 subsets of six additional targets (utility, two chained auxiliary functions, constraint, discrete and continuous deterministic transition) are requested, and on every Family_1 model the empty set, the full target set and every singleton: the frame must have exactly T*n rows indexed by the period-major product with the documented names, the exact column set, _period == t, row (t,i) continuing row (t-1,i) of the same agent (law-of-motion chain and C02 row oracle for the value/choice columns), and every target column must equal the reference evaluation of that model function at the row.",
        note="filters are not part of the target alphabet (the property does not list them); target columns compared at 1e-12",
        design="§4 C13",
    ),
    "C05": dict(
        engine="E1-family-explorer",
        technique="exhaustive enumeration of state sets x all permutations of the declaration order x all subsets of restricted states x period-dependent filter x choice/function order on the real solver; every array entry compared with the reference value the layout contract assigns to that index",
        text="State sets are all non-empty subsets (<= 4) of a pool of three discrete and two continuous states with pairwise different grid sizes. Block P runs ALL permutations of the declaration order (<= 24), block R all subsets of filter-restricted discrete states x period-dependent filter (leading axis length varies by period) x reversed choice and function order. For each of the 500+ models the list length, every array shape and every entry of every period must equal the reference value at the state the documented contract assigns to that index; the reference value is an asymmetric function of the state, so a transposition or re-ordering - also a consistent one inside the library - is flagged.",
        note="layout contract = mc/refmodel.Ref.to_lcm_layout; 4-state sets get rotations only in the quick tier (all 24 permutations in the thorough tier)",
        design="§4 C05",
    ),
    "C07": dict(
        engine="E1-family-explorer",
        technique="exhaustive enumeration of parameter-name assignments (4^5) and ordered stochastic dependency lists (85 x 3 horizons) for the template; per model all single-leaf and single-shock-row perturbations plus a beta sweep against the name-routing reference",
        text="Template: all 1024 assignments of parameter-name subsets of {a,b} to utility, auxiliary, constraint and two transition functions, and all 85 ordered dependency lists over {h,d,s,g,_period} (<= 3 entries) x T in {1,2,3}: key set, parameter names per function and shock-array shapes must equal the documented contract. Routing: for every Family_1 model and five collision bases (same name in utility, auxiliary, constraint and transition; parameters literally named beta; equal-sized dependencies) every template leaf and every shock row is perturbed alone and beta runs over {0,0.5,0.95,1,1.04,1.25}; one model feeds a transition output to a constraint; lcm's solution must equal the reference, which routes by function name by construction, in every grid state.",
        note="pairwise distinct leaf values make any cross-talk visible; simulation rows are checked on the collision bases only (C02 covers rows)",
        design="§4 C07",
    ),
    "C10": dict(
        engine="E1-family-explorer",
        technique="exhaustive enumeration of rewritings (all state permutations, all choice permutations, function-dict orders, renamings, always-true constraint/filter over all subsets <= 2 of discrete variables, filter-as-constraint) of 15 base models; differential oracle between two real solutions mapped through the layout contract",
        text="For 15 base models (continuous, fully discrete, stochastic and every Family_1 member that changes the variable set or the filter structure) every permutation of the state declaration order and of the choice order, rotations/reversal/sorted order of the functions dict, three renaming schemes (alphabetical order inverted, long names, shared prefixes), an always-true constraint and an always-true filter over every subset of at most two discrete variables, and every filter rewritten as a constraint are solved by the real code; the rewritten model's value of every state that remains in the space must equal the base model's value to 1e-12.",
        note="differential (no reference values); arrays are mapped to named states through the layout contract checked by C05",
        design="§4 C10",
    ),
    "C11": dict(
        engine="E1-family-explorer",
        technique="metamorphic relations between real solutions over the enumerated model family: affine utility transformation x beta alphabet, beta=0 vs last period of every shorter horizon, all horizon pairs for period-free models, all one-hot transition arrays vs deterministic lookup twin",
        text="For every Family_1 model: (affine) utility replaced by a*u+b for three (a,b) and two betas (thorough: 4x4) must give a*V+b*sum beta^k in every state and period; (beta0) with beta=0 the period-t array must equal the last-period array of the horizon-(t+1) model for every t<4; (stationary) for period-free models all pairs of horizons in 1..4 must agree j periods before the end; (degenerate) for stochastic models every one-hot transition array (cap 12 quick / 64 thorough) must give the solution of the twin model whose transition is the deterministic lookup table. The thorough tier adds the affine law on three upstream test models at full size (100x500 grids), which no reference implementation could enumerate.",
        note="no reference values; 1e-9 relative scaled by |a|+|b|+1",
        design="§4 C11",
    ),
    "C04": dict(
        engine="E3-history-explorer",
        technique="exhaustive identification of the hidden draw of every (seed, period, variable, agent) triple by 30 adaptive black-box queries of the real simulate (bisection on the transition row), over all configurations of a bounded (seed, T, agents, variables, labels) space; exact oracles on the identified thresholds",
        text="With a transition depending on (_period, g) and one distinct g per agent every (period, variable, agent) triple reads its own row, so the drawn label as a function of p0 is a step function whose threshold is identified to 2^-30 through the real simulate (about 9500 calls). For 69 configurations (3 seeds x T 2..4 x 1,2,5,40 agents x 1-2 variables x 2-3 labels x dependency orders (_period,g) and (g,_period)) the check decides exactly: a single threshold with the semantically fixed direction on a lattice of rows including zero and degenerate rows (inverse CDF; zero-probability labels never drawn; 3-label rows against the cumulative sums), pairwise distinct thresholds across agents, periods, variables and seeds (no key reuse), thresholds invariant under permuting other agents' data, changing parameters, the other variable's array or the agent's own non-dependency state, same seed = identical frames, other seed = identical period 0.",
        note="uniformity of the underlying draws is JAX's PRNG contract (trusted); an auxiliary Kolmogorov statistic over 720 thresholds guards against monotone distortions and can fail the run only at p < 1e-9",
        design="§4 C04",
    ),
    "C08": dict(
        engine="E3-history-explorer",
        technique="exhaustive enumeration of all permutations, subsets, single duplications and key orders of a 4-agent batch for every model of the family, real simulation; differential oracle against the base batch",
        text="For every Family_1 model a batch of four agents (on- and off-grid, sharing restricted resp. continuous states pairwise) is simulated, one of them without any feasible choice where the model allows it, followed by all 24 permutations, all 15 non-empty subsets, all 4 duplications and all key orders of the initial_states mapping (about 49 simulate calls per model); every agent's path (value, choices, states in every period; period 0 only for stochastic models) must equal its path in the base batch.",
        note="labels and choices exact, floats 1e-12; K5 (non-broadcast-safe transition functions) is reported under C03 and excluded here",
        design="§4 C08",
    ),
    "C09": dict(
        engine="E3-history-explorer",
        technique="breadth-first enumeration of all call sequences (depth 2, thorough 3) over a 6-letter call alphabet on one live function object per (model, jit, target), all ordered pairs of model variants sharing every name built in one process, and rebuilds in fresh interpreters under 16 hash seeds; cross-history digest comparison",
        text="672 call sequences (two parameter sets, python/numpy/jax leaves, two batches, two seeds, a params dict mutated in place between calls; after every single-call sequence the function is rebuilt from the same Model object and the call repeated) on live solve and solve_and_simulate objects of four models with jit on and off, 20 histories of five model variants that share all variable, function and parameter names (other grid type with the same bounds, other coefficient, other auxiliary body, other filter), and 64 fresh interpreters under PYTHONHASHSEED 0..15 (each building the variants in a rotated order): the bytes of the result of every (model, call) must be identical in every history, process and hash seed, and params pytrees (structure, leaf identity, leaf bytes) and the model object must be unchanged after get_lcm_function and after every call.",
        note="a bounded set of hash seeds; observed argument orders of the set-derived argument list are counted in the evidence; correctness of the fresh results is C01/C02's business",
        design="§4 C09",
    ),
    "C12": dict(
        engine="E3-history-explorer",
        technique="exhaustive enumeration of all subsets (size <= 2, thorough 3) of a 20-letter alphabet of documented rule violations on three base models, and of an odd-shape alphabet x horizons x batch sizes plus Family_1 for the converse; each specification is driven through Model(...), get_lcm_function (3 targets) and the first calls",
        text="Rejection: every subset of at most two of 20 documented rule violations (horizon 0/-1, no utility, missing transition, name overlap, non-grid state/choice, non-callable function, stochastic transition on/depending on a continuous variable, on a parameter, on an auxiliary function, filter with parameter, six invalid grids) applied to three base models must be rejected with ModelInitilizationError, GridInitializationError or ValueError no later than get_lcm_function, for all three targets (about 630 specifications). Converse: 21 odd shapes (no choices, no states, single-label and single-point grids, stochastic transitions without dependencies or with the period only, restricted stochastic state, state-only filters, only continuous / only discrete choices, ...) x T in {1,2} x 1 or 3 agents and every Family_1 model must either be rejected up front with a sanctioned exception or run solve, simulate and solve_and_simulate to completion with parameters filled from the returned template. A fresh interpreter must import lcm.entry_point without the compatibility shim.",
        note="eight accepted-but-failing shapes are genuine defects recorded as known findings K1, K2, K3a-d, K6 (matched by shape + stage + exception type); only documented rules are in the violation alphabet",
        design="§4 C12",
    ),
}

NOT_APPLICABLE = {
}


def main():
    man = {
        "version": 1,
        "setup_cmd": f"mkdir -p evidence replay .cache/jax && {PY} -m compileall -q mc",
        "hooks": {
            "guard": "LCM_VERIF",
            "enable": "no source hooks are needed: every observation point is reachable through lcm's Python API; checks import lcm from /repo/src (editable install), so they always run the current working tree",
            "baseline_off_cmd": "cd /repo && /venv/bin/python -m pytest -ra -q -p no:cacheprovider --timeout=900 --continue-on-collection-errors",
            "source_commits": [],
            "add_only": True,
        },
        "engines": [
            {"name": "E1-family-explorer", "path": "mc/e1.py", "serves_properties": ["C01", "C02", "C03", "C05", "C06", "C07", "C10", "C11", "C13"], "kind_free_text": "explicit enumeration of a deviation-bounded family of model programs (mc/family.py), each executed on the real lcm pipeline and compared with the reference model mc/refmodel.py in every grid state / simulated row"},
            {"name": "E2-primitive-explorer", "path": "mc/checks", "serves_properties": ["C14", "C15", "C16", "C17", "C18", "C19", "C20"], "kind_free_text": "exhaustive enumeration of all inputs over small alphabets and shapes for the leaf components, compared with nested-loop references"},
            {"name": "E3-history-explorer", "path": "mc/checks", "serves_properties": ["C04", "C08", "C09", "C12"], "kind_free_text": "breadth-first enumeration of call sequences / batch rearrangements / rule-violation subsets on live objects with differential oracles"},
        ],
        "checks": [],
        "notes": "All checks: exit 0 = property held on everything explored (KNOWN-FINDING lines allowed), exit 1 = VIOLATION line(s) + replay artefact, exit 2 = infrastructure failure. See DESIGN.md.",
        "not_applicable": [{"property_id": k, "reason": v} for k, v in sorted(NOT_APPLICABLE.items())],
    }
    for pid in sorted(CHECKS):
        c = CHECKS[pid]
        man["checks"].append(
            {
                "property_id": pid,
                "quick_cmd": f"{PY} -m mc.run {pid} --tier quick",
                "thorough_cmd": f"{PY} -m mc.run {pid} --tier thorough",
                "evidence_file": f"/verif/evidence/{pid}.json",
                "replay_cmd_template": f"{PY} -m mc.run --replay {{path}}",
                "engine": c["engine"],
                "level_claimed": {"category": "model_checking", "text": c["text"], "design_ref": c["design"]},
                "level_note": c["note"],
                "technique": c["technique"],
            }
        )
    all_ids = [json.loads(l)["id"] for l in open(os.path.join(ROOT, "properties.jsonl"))]
    claimed = set(CHECKS) | set(NOT_APPLICABLE)
    for pid in all_ids:
        if pid not in claimed:
            man["not_applicable"].append({"property_id": pid, "reason": "check not yet implemented in this revision of /verif (planned, see DESIGN.md §4); not claimed"})
    with open(os.path.join(ROOT, "MANIFEST.json"), "w") as f:
        json.dump(man, f, indent=1)
    print("wrote MANIFEST.json with", len(man["checks"]), "checks;", len(man["not_applicable"]), "not claimed")


if __name__ == "__main__":
    main()
