#!/bin/bash
# usage: tools/evq.sh <worktree-suffix e.g. C04b> <seed-id-prefix e.g. C04b> <property> <checks...>   (evaluates SEED/1 and SEED/2)
cd /verif
wt=$1; pre=$2; prop=$3; shift 3
for k in 1 2; do
  python3 tools/seed_eval.py /tmp/seed-$wt/SEED/$k $pre-$k $prop --checks "$@" > /tmp/ev-$pre-$k.log 2>&1
done
