"""The bounded model family of engine E1: feature vector -> lcm model "program".

A model is a vector of feature choices; option 0 of every feature is the base model B0.
`enumerate_family(k)` lists every vector within Hamming distance k of a base (complete,
deduplicated, deterministic order).  Design rules that make wrong plumbing visible: all
grids of a model have pairwise different sizes, utility couples the variables with
distinct coefficients, infeasible choices are *poisoned* (utility gets +50 exactly where a
constraint fails), constraint thresholds are incommensurable with every grid value.
"""
import itertools
from dataclasses import make_dataclass

FEATURES = {
    "T": [3, 1, 2, 4],
    # option "aux" (filter through an auxiliary function) is handled by make_source but is
    # not part of the E1 alphabet: it is known finding K4 (C17) and only C17/C12 enumerate it
    # "se": the 3-label choice e is the restricted one (e <= 2 - s): states have 3, 2 and 1 passing choices
    "filt": ["sd", "none", "grow", "shrink", "two", "states", "mix", "se"],
    "e": [0, 1],
    # "cl": second continuous choice b (3 points); "three": third continuous choice q (2 points)
    "cc": ["c", "none", "cl", "three"],
    "wgrid": ["lin", "log", "extrap", "disc"],
    "k": ["none", "lin", "log"],
    "g": [0, 1],
    # "three": THREE stochastic states h (deps h,d; 2 labels), g (deps g; 2 labels), m (deps m; 3 labels)
    # "h3": THREE labels, deps (h) (rows like (0.5, 0, 0.5) have a zero between positive entries)
    # "excl": deps (s, d) and a states-only filter excluding (s=2, h=1); e1.Built zeroes P(h'=1 | next_s = 2),
    # i.e. the excluded combination is a probability-zero node of the expectation
    "h": ["none", "h", "hd", "dh", "ph", "s", "hg", "two", "restricted", "hp", "dph", "excl", "h3", "three"],
    # "tight": c <= w - 0.2629, so the lowest wealth states have NO feasible choice (supported only for T=1,
    # where their value must be exactly -inf)
    # "multi": THREE constraints (on c/w, on e/s and on c/d)
    "cons": ["c", "none", "disc", "period", "param", "aux", "tight", "multi"],
    # make_source also supports "reduce" (a legal scalar function that is NOT broadcast-safe: it reduces
    # over a stacked array); it is enumerated explicitly by C03/C13 only, because simulate evaluates the
    # transition functions on whole agent vectors (known finding K5)
    "aux": ["one", "none", "chain", "period", "const"],
    "trans": ["default", "identity", "period", "param"],
    # "beta": every function parameter is called `beta` (a legal name; must not be confused with the discount factor)
    "pnames": ["distinct", "collide", "beta"],
    "order": ["default", "srev", "crev", "frev"],
    "uperiod": [0, 1],
}
BASE = {k: v[0] for k, v in FEATURES.items()}


def enumerate_family(k, base=BASE, features=FEATURES):
    keys = list(features)
    seen = set()
    out = []
    for r in range(k + 1):
        for subset in itertools.combinations(keys, r):
            alts = [features[f][1:] for f in subset]
            for combo in itertools.product(*alts):
                fv = dict(base)
                for f, v in zip(subset, combo):
                    fv[f] = v
                key = tuple(sorted(fv.items(), key=lambda kv: kv[0]))
                if key not in seen:
                    seen.add(key)
                    out.append(fv)
    return out


def normalise(fv):
    """Resolve dependent features; return new fv (canonical) or None if incompatible."""
    fv = dict(fv)
    if fv["h"] == "hg" or fv["filt"] == "states" or fv["h"] in ("two", "three"):
        fv["g"] = 1
    if fv["cons"] in ("disc", "multi") or fv["filt"] == "se":
        fv["e"] = 1
    if fv["filt"] == "shrink" and fv["T"] == 4:
        return None
    if fv["filt"] in ("grow", "shrink") and fv["h"] == "s":
        pass
    if fv["cc"] == "none" and fv["cons"] in ("period", "param", "aux", "tight", "multi"):
        return None
    if fv["h"] == "excl" and (fv["trans"] != "default" or fv["filt"] in ("shrink", "states", "grow", "mix")):
        return None
    if fv["wgrid"] == "disc" and fv["k"] != "none":
        return None  # k transition uses continuous w
    if fv["trans"] == "param" and fv["wgrid"] == "disc":
        return None
    return fv


def make_source(fv):
    """Return (source_text, states(list of (name, gridexpr)), choices, function_names, params, meta)."""
    T = fv["T"]
    # "big" (enumerated explicitly by C02 only): two continuous choices with 200 x 170 grid points (> 2^15 combinations)
    has_c = fv["cc"] in ("c", "cl", "three", "big")
    has_l = fv["cc"] in ("cl", "three", "big")
    has_q = fv["cc"] == "three"
    has_e = bool(fv["e"])
    has_g = bool(fv["g"])
    has_h = fv["h"] != "none"
    has_k = fv["k"] != "none"
    wdisc = fv["wgrid"] == "disc"
    P = {}  # params: function -> {name: value}
    L = []  # source lines
    funcs = []

    def pn(default):
        return {"collide": "a", "beta": "beta"}.get(fv["pnames"], default)

    ua = "beta" if fv["pnames"] == "beta" else "a"

    # ---------------- auxiliary functions
    aux_arg = None
    if fv["aux"] in ("one", "chain", "period", "reduce"):
        wage = pn("wage")
        if fv["aux"] == "reduce":
            L.append(f"def inc(d, s, {wage}):\n    return jnp.sum(jnp.array([d * {wage}, 0.1 * s, 0.05 * d * s]))\n\ninc._scalar_only = True")
        elif fv["aux"] == "period":
            L.append(f"def inc(d, {wage}, _period):\n    return d * {wage} * (1 + 0.5 * _period)")
        else:
            L.append(f"def inc(d, {wage}):\n    return d * {wage}")
        funcs.append("inc")
        P["inc"] = {wage: 1.9}
        aux_arg = "inc"
        if fv["aux"] == "chain":
            tax = pn("tax")
            L.append(f"def net(inc, {tax}):\n    return inc * (1 - {tax})")
            funcs.append("net")
            P["net"] = {tax: 0.3}
            aux_arg = "net"
    elif fv["aux"] == "age":
        # explicit-only: auxiliary functions that depend on the PERIOD only (the same value for every agent of a period)
        wage = pn("wage")
        L.append("def age(_period):\n    return 18.0 + 1.5 * _period")
        L.append(f"def pens(age, {wage}):\n    return {wage} * 0.1 * (age - 17.0) * (age - 16.0)")
        funcs += ["age", "pens"]
        P["age"] = {}
        P["pens"] = {wage: 1.9}
        aux_arg = "pens"
    elif fv["aux"] == "const":
        L.append("def kconst():\n    return 1.7")
        funcs.append("kconst")
        P["kconst"] = {}
        aux_arg = "kconst"

    # ---------------- constraints (expressions reused as poison in utility)
    cons_exprs = []  # (name, args, expr)
    if has_c:
        if fv["cons"] in ("c", "disc", "multi"):
            cons_exprs.append(("c_constraint", ["c", "w"], "c <= w + 0.2371" if not wdisc else "c <= w + 0.7371"))
            if fv["cons"] == "multi":
                cons_exprs.append(("cd_constraint", ["c", "d"], "c <= 2.7371 - 0.6 * d"))
        elif fv["cons"] == "lower":
            # (enumerated explicitly by C02 only, with T=1) lower bound makes the FIRST grid point infeasible and
            # utility is -inf at feasible points c <= 1: agents with little wealth have only -inf feasible choices
            cons_exprs.append(("c_constraint", ["c", "w"], "c <= w + 0.2371"))
            cons_exprs.append(("lb_constraint", ["c"], "c >= 0.7629"))
        elif fv["cons"] == "tight":
            cons_exprs.append(("c_constraint", ["c", "w"], "c <= w - 0.7629" if not wdisc else "c <= w - 0.2629"))
        elif fv["cons"] == "period":
            cons_exprs.append(("c_constraint", ["c", "w", "_period"], "c <= w + 0.2371 + 0.5 * _period"))
        elif fv["cons"] == "param":
            sl = pn("slack")
            cons_exprs.append(("c_constraint", ["c", "w", sl], f"c <= w + {sl}"))
            P["c_constraint"] = {sl: 0.2371}
        elif fv["cons"] == "aux":
            L.append("def budget(w):\n    return w + 0.2371")
            funcs.append("budget")
            P["budget"] = {}
            cons_exprs.append(("c_constraint", ["c", "budget"], "c <= budget"))
    else:
        if fv["cons"] in ("c", "disc"):
            cons_exprs.append(("d_constraint", ["d", "w"], "d <= w - 0.7371" if not wdisc else "d <= w + 0.5"))
    if fv["cons"] in ("disc", "multi"):
        cons_exprs.append(("e_constraint", ["e", "s"], "e <= s + 1"))
    for name, args, expr in cons_exprs:
        L.append(f"def {name}({', '.join(args)}):\n    return {expr}")
        funcs.append(name)
        P.setdefault(name, {})

    # ---------------- utility
    uargs = ["s", "w", "d"]
    # the d*w interaction makes the restricted choice d attractive at low and unattractive at high wealth, so
    # that some (off-grid) wealth levels are nearly indifferent between d = 0 and d = 1
    terms = [f"{ua} * 0.31 * d * (s + 1)", "- 0.052 * d", "- 0.11 * d * w"]
    terms.append("+ 0.21 * w * (1 + 0.5 * s)" if wdisc else "+ 0.0137 * w * (1 + 0.5 * s)")
    if has_g:
        uargs.append("g")
        terms.append("+ 0.071 * s * g - 0.043 * d * g + 0.09 * g")
    if has_h:
        uargs.append("h")
        terms.append("+ 0.23 * h * (1 + d) - 0.11 * h * s")
    if fv["h"] == "three":
        uargs.append("m")
        terms.append("+ 0.13 * m * (1 - d) + 0.037 * m * h - 0.029 * m * g")
    if fv["h"] == "two":
        pass  # g is the second stochastic state, already in utility
    if has_k:
        uargs.append("k")
        terms.append("+ 0.017 * k * (1 + s) + 0.004 * k * w")
    if has_e:
        uargs.append("e")
        terms.append("- 0.17 * e * e + 0.21 * e * s + 0.02 * e * w")
    if has_c:
        uargs.append("c")
        terms.append("+ jnp.log(jnp.maximum(c - 1.0, 0.0))" if fv["cons"] == "lower" else "+ jnp.log(c)")
    if has_l:
        uargs.append("b")
        terms.append("+ 0.3 * jnp.log(b) - 0.05 * b * d")
    if has_q:
        uargs.append("q")
        terms.append("+ 0.11 * q * (1 + s) - 0.23 * q * q")
    if aux_arg:
        uargs.append(aux_arg)
        terms.append(f"+ 0.05 * {aux_arg}" + (" * w" if aux_arg == "kconst" else ""))
    if fv["uperiod"]:
        uargs.append("_period")
        terms.append("+ 0.03 * _period * (d + 0.1 * s)")
    # poison infeasible choices: need the constraint inputs in utility signature
    for name, args, expr in cons_exprs:
        for a_ in args:
            if a_ not in uargs:
                if a_ in ("budget",) or a_ in ("slack", "a", "beta"):
                    continue
                uargs.append(a_)
        if all(a_ in uargs for a_ in args):
            terms.append(f"+ 50.0 * (1 - ({expr}))")
    uargs.append(ua)
    P["utility"] = {ua: 1.3}
    L.append(f"def utility({', '.join(uargs)}):\n    return (" + "\n        ".join(terms) + "\n    )")
    funcs.insert(0, "utility")

    # ---------------- filters
    next_s_expr = "jnp.clip(s + d, 0, 2)"
    if fv["filt"] == "sd":
        L.append("def sd_filter(s, d):\n    return jnp.logical_or(d == 0, s < 2)")
        funcs.append("sd_filter")
    elif fv["filt"] == "grow":
        L.append("def sp_filter(s, d, _period):\n    return jnp.logical_and(s <= _period, jnp.logical_or(d == 0, s < 2))")
        funcs.append("sp_filter")
    elif fv["filt"] == "shrink":
        L.append("def sp_filter(s, d, _period):\n    return jnp.logical_and(s >= _period, d >= 0)")
        funcs.append("sp_filter")
        next_s_expr = "jnp.clip(jnp.maximum(s + d, _period + 1), 0, 2)"
    elif fv["filt"] == "dp":
        # (explicit members only) a second filter that involves NO state: choice and period only
        L.append("def sd_filter(s, d):\n    return jnp.logical_or(d == 0, s < 2)")
        L.append("def dp_filter(d, _period):\n    return d <= _period")
        funcs += ["sd_filter", "dp_filter"]
    elif fv["filt"] == "se":
        L.append("def se_filter(s, e):\n    return e <= 2 - s")
        funcs.append("se_filter")
    elif fv["filt"] == "mix":
        L.append("def sd_filter(s, d):\n    return jnp.logical_or(d == 0, s < 2)")
        L.append("def sp_filter(s, d, _period):\n    return jnp.logical_and(s <= _period + 1, d <= _period)")
        funcs += ["sd_filter", "sp_filter"]
    elif fv["filt"] == "two":
        L.append("def sd_filter(s, d):\n    return jnp.logical_or(d == 0, s < 2)")
        L.append("def sd2_filter(s, d):\n    return jnp.logical_or(d == 1, s > 0)")
        funcs += ["sd_filter", "sd2_filter"]
    elif fv["filt"] == "aux":
        L.append("def lim(s):\n    return s < 2")
        L.append("def sd_filter(d, lim):\n    return jnp.logical_or(d == 0, lim)")
        funcs += ["lim", "sd_filter"]
        P["lim"] = {}
    elif fv["filt"] == "states":
        L.append("def sg_filter(s, g):\n    return s + g <= 2")
        funcs.append("sg_filter")
        next_s_expr = "jnp.clip(s + d, 0, 2 - g)"
    for f in funcs:
        if f.endswith("_filter"):
            P[f] = {}
    if fv["h"] == "excl":
        L.append("def sh_filter(s, h):\n    return jnp.logical_not(jnp.logical_and(s == 2, h == 1))")
        funcs.append("sh_filter")
        P["sh_filter"] = {}
    if fv["h"] == "restricted":
        L.append("def hd_filter(h, d):\n    return jnp.logical_or(h == 1, d == 0)")
        funcs.append("hd_filter")
        P["hd_filter"] = {}

    # ---------------- transitions
    if fv["trans"] == "identity" and fv["filt"] not in ("shrink", "states"):
        next_s_expr = "s"
    elif fv["trans"] == "period" and fv["filt"] not in ("shrink", "states"):
        next_s_expr = "jnp.clip(s + d * (1 - _period % 2), 0, 2)"
    import re as _re
    ns_args = [v for v in ["s", "d", "g", "_period"] if _re.search(rf"(?<![A-Za-z_]){v}(?![A-Za-z_0-9])", next_s_expr)]
    L.append(f"def next_s({', '.join(ns_args)}):\n    return {next_s_expr}")
    funcs.append("next_s")
    P["next_s"] = {}
    # next_w
    if wdisc:
        L.append("def next_w(w, d):\n    return jnp.clip(w + 1 - 2 * d, 0, 3)")
        P["next_w"] = {}
    else:
        wargs = ["w", "d"]
        if has_c:
            wargs.append("c")
            core = "(w - c)"
        else:
            core = "0.6 * w"
        r = pn("r")
        if fv["trans"] == "param":
            wargs.append(r)
            core = f"(1 + {r}) * {core}"
            P["next_w"] = {r: 0.07}
        else:
            P["next_w"] = {}
        expr = f"{core} + 1.0 + 0.25 * d"
        if aux_arg == "inc" or aux_arg == "net":
            wargs.append("inc")
            expr += " + 0.1 * inc"
        if has_l:
            wargs.append("b")
            expr += " + 0.4 * (1.2 - b)"
        if fv["wgrid"] == "log":
            expr = f"jnp.clip({expr}, 1.0, 5.0)"
        elif fv["wgrid"] == "extrap":
            expr = f"1.6 * ({expr}) - 1.5"
        L.append(f"def next_w({', '.join(wargs)}):\n    return {expr}")
    funcs.append("next_w")
    if has_g:
        if fv["h"] in ("two", "three"):
            L.append("@lcm.mark.stochastic\ndef next_g(g):\n    pass")
        else:
            L.append("def next_g(g, d):\n    return jnp.where(d == 1, g, 1 - g)" if fv["filt"] != "states" else "def next_g(g):\n    return g")
        funcs.append("next_g")
        P["next_g"] = {}
    if has_k:
        L.append("def next_k(k, w):\n    return jnp.clip(0.8 * k + 0.05 * w + 0.1, 0.5, 2.0)")
        funcs.append("next_k")
        P["next_k"] = {}
    hdeps = None
    if has_h:
        hdeps = {"h": ["h"], "hd": ["h", "d"], "dh": ["d", "h"], "ph": ["_period", "h"], "s": ["s"], "hp": ["h", "_period"], "dph": ["d", "_period", "h"], "excl": ["s", "d"], "h3": ["h"],
                 "hg": ["h", "g"], "two": ["h", "d"], "three": ["h", "d"], "restricted": ["h", "d"]}[fv["h"]]
        if fv["h"] == "three":
            # declared BEFORE next_h: function order (g, m, h) differs from state order (h, g, m)
            L.append("@lcm.mark.stochastic\ndef next_m(m):\n    pass")
            funcs.append("next_m")
            P["next_m"] = {}
        L.append(f"@lcm.mark.stochastic\ndef next_h({', '.join(hdeps)}):\n    pass")
        funcs.append("next_h")
        P["next_h"] = {}

    # ---------------- variables
    # "fine" (explicit members only): 41 grid points
    states = [("s", "D(3)"), ("w", {"lin": "Lin(1, 5, 5)", "log": "Log(0.8, 5, 5)", "extrap": "Lin(1, 5, 5)", "disc": "D(4)", "fine": "Lin(1, 5, 41)"}[fv["wgrid"]])]
    if has_h:
        states.append(("h", "D(3)" if fv["h"] == "h3" else "D(2)"))  # h before g: declaration order != alphabetical order
    if has_g:
        states.append(("g", "D(2)"))
    if fv["h"] == "three":
        states.append(("m", "D(3)"))  # another label count than h and g
    if has_k:
        states.append(("k", "Lin(0.5, 2.0, 3)" if fv["k"] == "lin" else "Log(0.5, 2.0, 4)"))
    choices = [("d", "D(2)")]
    if has_e:
        choices.append(("e", "D(3)"))
    if has_c:
        choices.append(("c", "Lin(0.5, 3.0, 200)" if fv["cc"] == "big" else "Lin(0.5, 3.0, 6)"))
    if has_l:
        choices.append(("b", "Lin(0.2, 1.2, 170)" if fv["cc"] == "big" else "Lin(0.2, 1.2, 3)"))  # declared after c: declaration order != alphabetical
    if has_q:
        choices.insert(0, ("q", "Lin(0.0, 1.0, 2)"))
    if fv["order"] == "srev":
        states = states[::-1]
    if fv["order"] == "crev":
        choices = choices[::-1]
    if fv["order"] == "frev":
        funcs = funcs[::-1]
    sizes = {"D(2)": 2, "D(3)": 3, "D(4)": 4}
    shocks = {}
    allv = dict(states + choices)
    if has_h:
        shocks["h"] = [T if d_ == "_period" else sizes[allv[d_]] for d_ in hdeps] + [3 if fv["h"] == "h3" else 2]
    if fv["h"] in ("two", "three"):
        shocks["g"] = [2, 2]
    if fv["h"] == "three":
        shocks["m"] = [3, 3]
    src = "\n\n".join(L)
    return src, states, choices, funcs, P, shocks


PRELUDE = '''
import jax.numpy as jnp
import lcm
from lcm import DiscreteGrid, LinspaceGrid, LogspaceGrid, Model
from dataclasses import make_dataclass
def D(n): return DiscreteGrid(make_dataclass(f"C{n}", [(f"c{i}", int, i) for i in range(n)]))
def Lin(a, b, n): return LinspaceGrid(start=a, stop=b, n_points=n)
def Log(a, b, n): return LogspaceGrid(start=a, stop=b, n_points=n)
'''


def assemble(T, src, states, choices, funcs, func_keys=None):
    """Model source text from parts; func_keys maps function name -> key in the functions dict."""
    func_keys = func_keys or {}
    return PRELUDE + src + "\n\nMODEL = Model(n_periods=%d,\n    functions={%s},\n    choices={%s},\n    states={%s})\n" % (
        T,
        ", ".join(f'"{func_keys.get(f, f)}": {f}' for f in funcs),
        ", ".join(f'"{n}": {g}' for n, g in choices),
        ", ".join(f'"{n}": {g}' for n, g in states),
    )


def exec_model(text):
    ns = {}
    exec(text, ns)
    return ns["MODEL"]


def build(fv):
    src, states, choices, funcs, P, shocks = make_source(fv)
    text = assemble(fv["T"], src, states, choices, funcs)
    return text, exec_model(text), P, shocks
