"""known_findings.json: genuine defects recorded rather than repaired.

Matching is exact on property, stage and signal and a *subset* match on the case
pattern; a violation of the same property with another stage, signal or case shape is
reported as a VIOLATION.  Entries with status "fixed" are documentation only and are
never consulted.  The file is never written at run time.
"""
from __future__ import annotations

import json
import os

from mc import compat

PATH = os.path.join(compat.VERIF_ROOT, "known_findings.json")


def load() -> list[dict]:
    try:
        doc = json.load(open(PATH))
    except OSError:
        return []
    return [f for f in doc.get("findings", []) if f.get("status") == "known"]


def _subset(pattern, obj) -> bool:
    if isinstance(pattern, dict):
        if not isinstance(obj, dict):
            return False
        return all(k in obj and _subset(v, obj[k]) for k, v in pattern.items())
    if isinstance(pattern, list) and isinstance(obj, list):
        return pattern == obj
    return pattern == obj


def match(known, prop, case, v):
    for k in known:
        if k["property"] != prop:
            continue
        m = k["match"]
        if m.get("stage") is not None and m["stage"] != v.get("stage"):
            continue
        if m.get("signal") is not None and m["signal"] != v.get("signal"):
            continue
        if m.get("oracle") is not None and m["oracle"] != v.get("oracle"):
            continue
        if m.get("message_contains") and m["message_contains"] not in v.get("message", ""):
            continue
        if not _subset(m.get("case", {}), case):
            continue
        return k
    return None
