"""Boring reference semantics for lcm models (numpy, float64, full Cartesian products).

Shares no code with lcm and none of its concepts except what the *documented
contracts* mention (argument resolution by name, the axis layout of C05, the parameter
template of C07).  No dags, no vmap, no sparse/dense machinery, no indexers.
"""
from __future__ import annotations

import inspect
import itertools

import numpy as np


class Unsupported(Exception):
    """The model leaves the class of supported models the properties quantify over."""


def grid_of(spec):
    """Materialise a grid specification from its public attributes only."""
    name = type(spec).__name__
    if name == "DiscreteGrid":
        return np.array(spec.codes, dtype=np.int64)
    if name == "LinspaceGrid":
        return np.linspace(float(spec.start), float(spec.stop), int(spec.n_points))
    if name == "LogspaceGrid":
        return np.exp(np.linspace(np.log(float(spec.start)), np.log(float(spec.stop)), int(spec.n_points)))
    raise TypeError(spec)


def is_stochastic(f) -> bool:
    return hasattr(f, "_stochastic_info")


class Ref:
    def __init__(self, model, params):
        self.model = model
        self.params = params
        self.funcs = dict(model.functions)
        self.states = list(model.states)
        self.choices = list(model.choices)
        self.specs = {**model.states, **model.choices}
        self.grids = {k: grid_of(v) for k, v in self.specs.items()}
        self.kind = {k: type(v).__name__ for k, v in self.specs.items()}
        self.T = model.n_periods
        self.filters = [n for n in self.funcs if n.endswith("_filter")]
        self.constraints = [n for n in self.funcs if n.endswith("_constraint")]
        self.stochastic = [s for s in self.states if is_stochastic(self.funcs[f"next_{s}"])]
        self.cont_states = [s for s in self.states if self.kind[s] != "DiscreteGrid"]
        anc = set()
        for f in self.filters:
            anc |= self._ancestors(f)
        # "filter-restricted" variables in the sense of the layout contract
        self.restricted = [v for v in self.states + self.choices if v in anc]
        self.touched_excluded = False
        self.left_log_range = False

    # ---------------------------------------------------------------- name resolution
    def _ancestors(self, name, seen=None):
        seen = set() if seen is None else seen
        for a in inspect.signature(self.funcs[name]).parameters:
            if a in seen:
                continue
            seen.add(a)
            if a in self.funcs:
                self._ancestors(a, seen)
        return seen

    def ev(self, name, env, period, memo=None):
        """Evaluate model function `name`: variable -> value, `_period` -> t, other
        function -> recursive evaluation, anything else -> params[name][arg]."""
        memo = {} if memo is None else memo
        if name in memo:
            return memo[name]
        f = self.funcs[name]
        kw = {}
        for a in inspect.signature(f).parameters:
            if a in env:
                kw[a] = env[a]
            elif a == "_period":
                kw[a] = period
            elif a in self.funcs:
                kw[a] = self.ev(a, env, period, memo)
            else:
                kw[a] = self.params[name][a]
        if getattr(f, "_scalar_only", False):
            # legal user functions need not be broadcast-safe: evaluate element by element
            names = list(kw)
            arrs = np.broadcast_arrays(*[np.asarray(kw[k]) for k in names])
            flat = [a.reshape(-1) for a in arrs]
            vals = [np.asarray(f(**{k: flat[j][i] for j, k in enumerate(names)})) for i in range(flat[0].size)]
            out = np.asarray(vals).reshape(arrs[0].shape) if names else np.asarray(f())
        else:
            out = np.asarray(f(**kw))
        memo[name] = out
        return out

    # ---------------------------------------------------------------- interpolation
    def interp(self, V, nxt):
        """V: full array over all states (declaration order); nxt: state -> array."""
        shape = np.broadcast_shapes(*[np.shape(v) for v in nxt.values()])
        idx_lo, w_hi = {}, {}
        for s in self.states:
            x = np.broadcast_to(np.asarray(nxt[s]), shape)
            g = self.grids[s]
            if s in self.cont_states:
                x = x.astype(np.float64)
                if self.kind[s] == "LogspaceGrid":
                    if np.any(x < g[0] * (1 - 1e-12)) or np.any(x > g[-1] * (1 + 1e-12)):
                        self.left_log_range = True
                i = np.clip(np.searchsorted(g, x, side="right") - 1, 0, len(g) - 2)
                idx_lo[s] = i
                w_hi[s] = (x - g[i]) / (g[i + 1] - g[i])
            else:
                xi = np.rint(x).astype(np.int64)
                if not np.all(xi == x):
                    raise Unsupported("non-integer next value of a discrete state")
                if xi.min() < 0 or xi.max() >= len(g):
                    raise Unsupported("next value of a discrete state is off its grid")
                idx_lo[s] = xi
        out = np.zeros(shape)
        for corner in itertools.product([0, 1], repeat=len(self.cont_states)):
            weight = np.ones(shape)
            index = []
            cd = dict(zip(self.cont_states, corner))
            for s in self.states:
                if s in cd:
                    index.append(idx_lo[s] + cd[s])
                    weight = weight * (w_hi[s] if cd[s] else 1 - w_hi[s])
                else:
                    index.append(idx_lo[s])
            out = out + weight * V[tuple(index)]
        return out

    # ---------------------------------------------------------------- objective
    def env_full(self):
        names = self.states + self.choices
        n = len(names)
        env = {}
        for k, name in enumerate(names):
            shp = [1] * n
            shp[k] = len(self.grids[name])
            env[name] = self.grids[name].reshape(shp)
        return env

    def q_values(self, env, period, Vnext, margins=None):
        """Objective u + beta*E[V'] plus filter and constraint masks on `env`.

        margins: optional list collecting |lhs-rhs| style knife-edge information is not
        available for opaque user functions, so knife edges are handled by the model
        generator (thresholds incommensurable with all grid values)."""
        memo = {}
        shape = np.broadcast_shapes(*[np.shape(v) for v in env.values()]) if env else ()
        u = np.broadcast_to(self.ev("utility", env, period, memo).astype(np.float64), shape)
        filt = np.ones(shape, bool)
        for f in self.filters:
            filt = filt & np.broadcast_to(self.ev(f, env, period, memo).astype(bool), shape)
        cons = np.ones(shape, bool)
        for c in self.constraints:
            cons = cons & np.broadcast_to(self.ev(c, env, period, memo).astype(bool), shape)
        if period == self.T - 1 or Vnext is None:
            return u, filt, cons
        nxt = {}
        for s in self.states:
            if s not in self.stochastic:
                nxt[s] = np.broadcast_to(self.ev(f"next_{s}", env, period, memo), shape)
        cont = np.zeros(shape)
        labels = [self.grids[s] for s in self.stochastic]
        for combo in itertools.product(*[range(len(l)) for l in labels]):
            w = np.ones(shape)
            nx = dict(nxt)
            for s, k in zip(self.stochastic, combo):
                deps = list(inspect.signature(self.funcs[f"next_{s}"]).parameters)
                arr = np.asarray(self.params["shocks"][s], dtype=np.float64)
                ix = []
                for d in deps:
                    if d == "_period":
                        ix.append(period)
                    else:
                        ix.append(np.broadcast_to(np.asarray(env[d]), shape).astype(np.int64))
                w = w * arr[tuple(ix) + (k,)]
                nx[s] = np.full(shape, self.grids[s][k])
            vals = self.interp(Vnext, nx)
            if np.any(np.isnan(vals) & (w != 0) & filt & cons):
                self.touched_excluded = True
            cont = cont + np.where(w == 0, 0.0, w * vals)
        beta = float(self.params["beta"])
        return u + beta * cont, filt, cons

    def backup(self, period, Vnext):
        """One Bellman step on the full grid.  Returns V_t (NaN where the state is
        filter-excluded in period t)."""
        ns = len(self.states)
        env = self.env_full()
        q, filt, cons = self.q_values(env, period, Vnext)
        caxes = tuple(range(ns, ns + len(self.choices)))
        feas = filt & cons
        qq = np.where(feas, q, -np.inf)
        V = qq.max(axis=caxes) if caxes else qq
        in_space = filt.any(axis=caxes) if caxes else filt
        return np.where(in_space, V, np.nan)

    def solve(self):
        Vs = [None] * self.T
        Vnext = None
        for t in reversed(range(self.T)):
            Vs[t] = self.backup(t, Vnext)
            Vnext = Vs[t]
        return Vs

    def in_space(self, period):
        ns = len(self.states)
        env = self.env_full()
        shape = tuple(len(self.grids[v]) for v in self.states + self.choices)
        filt = np.ones(shape, bool)
        memo = {}
        for f in self.filters:
            filt = filt & np.broadcast_to(self.ev(f, env, period, memo).astype(bool), shape)
        caxes = tuple(range(ns, ns + len(self.choices)))
        return filt.any(axis=caxes) if caxes else filt

    # ---------------------------------------------------------------- layout contract (C05)
    def layout_order(self):
        rs = [s for s in self.states if s in self.restricted]
        dd = [s for s in self.states if s not in self.restricted and s not in self.cont_states]
        dc = [s for s in self.states if s not in self.restricted and s in self.cont_states]
        return rs, dd, dc

    def to_lcm_layout(self, V, period):
        """Full array (declaration order) -> documented layout of the solution arrays."""
        rs, dd, dc = self.layout_order()
        order = rs + dd + dc
        perm = [self.states.index(s) for s in order]
        A = np.transpose(V, perm)
        if rs:
            k = len(rs)
            mask = np.transpose(self.in_space(period), perm)
            # in_space depends on restricted states only (filters only see restricted vars)
            m = mask.reshape(mask.shape[:k] + (-1,)).any(axis=-1).reshape(-1)
            lead = int(np.prod(A.shape[:k]))
            A = A.reshape((lead,) + A.shape[k:])[m]
        return A

    def from_lcm_layout(self, A, period):
        """Documented layout -> full array (NaN at filter-excluded states)."""
        A = np.asarray(A, dtype=np.float64)
        rs, dd, dc = self.layout_order()
        order = rs + dd + dc
        shape_o = tuple(len(self.grids[s]) for s in order)
        if rs:
            k = len(rs)
            perm = [self.states.index(s) for s in order]
            mask = np.transpose(self.in_space(period), perm)
            m = mask.reshape(mask.shape[:k] + (-1,)).any(axis=-1).reshape(-1)
            lead = int(np.prod(shape_o[:k]))
            full = np.full((lead,) + shape_o[k:], np.nan)
            if A.shape != (int(m.sum()),) + shape_o[k:]:
                raise ValueError(f"layout: shape {A.shape} != {(int(m.sum()),) + shape_o[k:]}")
            full[m] = A
            full = full.reshape(shape_o)
        else:
            if A.shape != shape_o:
                raise ValueError(f"layout: shape {A.shape} != {shape_o}")
            full = A
        inv = [order.index(s) for s in self.states]
        return np.transpose(full, inv)

    # ---------------------------------------------------------------- simulated rows
    def row_objective(self, states_rows, period, Vnext):
        """Objective of every grid choice combination for n agents.

        states_rows: dict state -> (n,) array.  Returns q (n, *choice_shape), feas."""
        n = len(next(iter(states_rows.values()))) if states_rows else 1
        nc = len(self.choices)
        env = {}
        for s in self.states:
            env[s] = np.asarray(states_rows[s]).reshape((n,) + (1,) * nc)
        for k, c in enumerate(self.choices):
            shp = [1] * (nc + 1)
            shp[k + 1] = len(self.grids[c])
            env[c] = self.grids[c].reshape(shp)
        q, filt, cons = self.q_values(env, period, Vnext)
        shape = (n,) + tuple(len(self.grids[c]) for c in self.choices)
        return np.broadcast_to(q, shape), np.broadcast_to(filt & cons, shape)


# --------------------------------------------------------------------------------------
# template contract (C07)
# --------------------------------------------------------------------------------------
def template_contract(model):
    """Expected parameter template: key set, names per function, shock shapes."""
    funcs = dict(model.functions)
    variables = set(model.states) | set(model.choices) | set(funcs) | {"_period"}
    out = {"beta": None}
    for name, f in funcs.items():
        out[name] = sorted(a for a in inspect.signature(f).parameters if a not in variables)
    shocks = {}
    allv = {**model.states, **model.choices}
    for s in model.states:
        f = funcs[f"next_{s}"]
        if is_stochastic(f):
            shape = []
            for d in inspect.signature(f).parameters:
                shape.append(model.n_periods if d == "_period" else len(grid_of(allv[d])))
            shape.append(len(grid_of(model.states[s])))
            shocks[s] = tuple(shape)
    if shocks:
        out["shocks"] = shocks
    return out


def close(a, b, rtol=1e-9):
    """|a-b| <= rtol*(1+|b|) elementwise, with exact agreement on inf/nan patterns."""
    a = np.asarray(a, dtype=np.float64)
    b = np.asarray(b, dtype=np.float64)
    with np.errstate(invalid="ignore"):
        same = (a == b) | (np.isnan(a) & np.isnan(b))
        near = np.abs(a - b) <= rtol * (1 + np.abs(b))
    return same | (near & np.isfinite(a) & np.isfinite(b))
