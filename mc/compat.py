"""Process-wide setup shared by the runner and all workers.

* pins the number of XLA threads (16 worker processes share 16 cores),
* enables x64 (the upstream test-suite does the same in tests/conftest.py),
* optionally enables JAX's persistent compilation cache (keyed by HLO hash, so it
  can never serve a program of a different source tree),
* installs a `jax.util` compatibility shim ONLY if the installed JAX lacks it AND
  lcm.ndimage still asks for it (so the other properties stay checkable on a tree
  where the import fix has been reverted; C12 checks the import without the shim).
"""
from __future__ import annotations

import logging
import os
import sys
import types

VERIF_ROOT = os.path.dirname(os.path.dirname(os.path.abspath(__file__)))
REPO_ROOT = os.environ.get("LCM_REPO", "/repo")
CACHE_DIR = os.path.join(VERIF_ROOT, ".cache", "jax")

_done = False
SHIM_INSTALLED = False


def _needs_shim() -> bool:
    try:
        import jax

        if hasattr(jax, "util") and hasattr(jax.util, "safe_zip"):
            return False
    except Exception:
        return False
    path = os.path.join(REPO_ROOT, "src", "lcm", "ndimage.py")
    try:
        text = open(path).read()
    except OSError:
        return False
    return "util." in text and "import" in text and " util" in text


def setup(cache: bool = True) -> None:
    global _done, SHIM_INSTALLED
    if _done:
        return
    os.environ.setdefault(
        "XLA_FLAGS",
        "--xla_cpu_multi_thread_eigen=false intra_op_parallelism_threads=1",
    )
    os.environ.setdefault("JAX_PLATFORMS", "cpu")
    os.environ.setdefault("OMP_NUM_THREADS", "1")
    os.environ.setdefault("OPENBLAS_NUM_THREADS", "1")
    import jax

    jax.config.update("jax_enable_x64", True)
    if cache and os.environ.get("LCM_VERIF_NOCACHE") != "1":
        try:
            os.makedirs(CACHE_DIR, exist_ok=True)
            jax.config.update("jax_compilation_cache_dir", CACHE_DIR)
            jax.config.update("jax_persistent_cache_min_compile_time_secs", 0.0)
            jax.config.update("jax_persistent_cache_min_entry_size_bytes", 0)
        except Exception:  # cache is an optimisation only
            pass
    if _needs_shim():
        m = types.ModuleType("jax.util")

        def safe_zip(*a):
            return list(zip(*a, strict=True))

        def unzip2(xys):
            xs, ys = [], []
            for x, y in xys:
                xs.append(x)
                ys.append(y)
            return tuple(xs), tuple(ys)

        m.safe_zip = safe_zip
        m.unzip2 = unzip2
        sys.modules["jax.util"] = m
        jax.util = m
        SHIM_INSTALLED = True
    import warnings

    warnings.filterwarnings("ignore", message=".*persistent compilation cache.*")
    logging.disable(logging.INFO)
    logging.getLogger("lcm").setLevel(logging.ERROR)
    _done = True
