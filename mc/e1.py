"""Engine E1: run one model "program" of the family through the real pipeline and the
reference model.  Used by C01, C02, C03, C05, C06, C07, C10, C11, C13."""
from __future__ import annotations

import numpy as np

from mc import family, refmodel


def fv_id(fv) -> str:
    dev = {k: v for k, v in fv.items() if v != family.BASE[k]}
    return "B0" + "".join(f"+{k}={dev[k]}" for k in sorted(dev))


def gen_params(P, shocks, seed, variant="default", beta=0.9):
    """Parameter valuation.  variant: default | perturbed (every leaf gets its own factor)."""
    rng = np.random.default_rng(1000 + seed)
    params = {"beta": beta}
    j = 0
    for fname in P:
        params[fname] = {}
        for pname, val in P[fname].items():
            if variant == "perturbed":
                j += 1
                val = val * (1 + 0.07 * j) + 0.013 * j
            params[fname][pname] = float(val)
    if shocks:
        import jax.numpy as jnp

        params["shocks"] = {}
        for k, shp in shocks.items():
            x = rng.uniform(0.1, 1, shp)
            if variant == "perturbed":
                x = x ** 2 + 0.05
            params["shocks"][k] = jnp.array(x / x.sum(-1, keepdims=True))
    return params


class Built:
    """A generated model plus everything derived from the feature vector."""

    def __init__(self, fv, seed=0):
        self.fv_in = dict(fv)
        self.fv = family.normalise(fv)
        self.valid = self.fv is not None
        if not self.valid:
            return
        self.text, self.model, self.P, self.shocks = family.build(self.fv)
        self.seed = seed

    def params(self, variant="default", beta=0.9):
        return gen_params(self.P, self.shocks, self.seed, variant, beta)


def lcm_solve(model, params, jit=True):
    from lcm.entry_point import get_lcm_function

    solve, tpl = get_lcm_function(model, targets="solve", debug_mode=False, jit=jit)
    V = solve(params)
    return [np.asarray(v) for v in V], tpl, solve


def reference(model, params):
    """Reference solution + supportedness verdict (F5 of DESIGN.md)."""
    r = refmodel.Ref(model, params)
    try:
        R = r.solve()
    except refmodel.Unsupported as e:
        return r, None, "unsupported:" + str(e)
    if r.touched_excluded:
        return r, R, "unsupported:transition-into-filter-excluded-state"
    if r.left_log_range:
        return r, R, "unsupported:transition-leaves-log-grid-range"
    if any(np.isneginf(x).any() for x in R[:-1]):
        return r, R, "unsupported:state-without-feasible-choice-before-last-period"
    return r, R, None


def initial_states(r, R0, offgrid=True):
    """All in-space grid states of period 0 as agents, plus an off-grid copy of each."""
    names = r.states
    mesh = np.meshgrid(*[r.grids[s] for s in names], indexing="ij")
    flat = {s: x.reshape(-1) for s, x in zip(names, mesh)}
    keep = ~np.isnan(R0.reshape(-1))
    init = {s: flat[s][keep] for s in names}
    n_grid = int(keep.sum())
    if offgrid and r.cont_states:
        off = {s: init[s].copy() for s in names}
        for s in r.cont_states:
            g = r.grids[s]
            hi = g[-1] if r.kind[s] == "LogspaceGrid" else None
            off[s] = np.clip(init[s] * 1.07 + 0.113, g[0], hi)
        init = {s: np.concatenate([init[s], off[s]]) for s in names}
    return init, n_grid


def to_jax(init):
    import jax.numpy as jnp

    return {s: jnp.array(v) for s, v in init.items()}
