"""Engine E1: run one model "program" of the family through the real pipeline and the
reference model.  Used by C01, C02, C03, C05, C06, C07, C10, C11, C13."""
from __future__ import annotations

import itertools

import numpy as np

from mc import family, refmodel


def fv_id(fv) -> str:
    dev = {k: v for k, v in fv.items() if v != family.BASE[k]}
    return "B0" + "".join(f"+{k}={dev[k]}" for k in sorted(dev))


def gen_params(P, shocks, seed, variant="default", beta=0.9):
    """Parameter valuation.  variant: default | perturbed (every leaf gets its own factor)."""
    rng = np.random.default_rng(1000 + seed)
    params = {"beta": beta}
    j = 0
    for fname in P:
        params[fname] = {}
        for pname, val in P[fname].items():
            if variant == "perturbed":
                j += 1
                val = val * (1 + 0.07 * j) + 0.013 * j
            params[fname][pname] = float(val)
    if shocks:
        import jax.numpy as jnp

        params["shocks"] = {}
        for k, shp in shocks.items():
            x = rng.uniform(0.1, 1, shp)
            if variant == "perturbed":
                x = x ** 2 + 0.05
            params["shocks"][k] = jnp.array(x / x.sum(-1, keepdims=True))
    return params


class Built:
    """A generated model plus everything derived from the feature vector."""

    def __init__(self, fv, seed=0):
        self.fv_in = dict(fv)
        self.fv = family.normalise(fv)
        self.valid = self.fv is not None
        if not self.valid:
            return
        self.text, self.model, self.P, self.shocks = family.build(self.fv)
        self.seed = seed

    def params(self, variant="default", beta=0.9):
        return structural_zeros(self.fv, gen_params(self.P, self.shocks, self.seed, variant, beta))


def lcm_solve(model, params, jit=True):
    from lcm.entry_point import get_lcm_function

    solve, tpl = get_lcm_function(model, targets="solve", debug_mode=False, jit=jit)
    V = solve(params)
    return [np.asarray(v) for v in V], tpl, solve


def reference(model, params):
    """Reference solution + supportedness verdict (F5 of DESIGN.md)."""
    r = refmodel.Ref(model, params)
    try:
        R = r.solve()
    except refmodel.Unsupported as e:
        return r, None, "unsupported:" + str(e)
    if r.touched_excluded:
        return r, R, "unsupported:transition-into-filter-excluded-state"
    if r.left_log_range:
        return r, R, "unsupported:transition-leaves-log-grid-range"
    if any(np.isneginf(x).any() for x in R[:-1]):
        return r, R, "unsupported:state-without-feasible-choice-before-last-period"
    return r, R, None


def initial_states(r, R0, offgrid=True):
    """All in-space grid states of period 0 as agents, plus an off-grid copy of each."""
    names = r.states
    mesh = np.meshgrid(*[r.grids[s] for s in names], indexing="ij")
    flat = {s: x.reshape(-1) for s, x in zip(names, mesh)}
    keep = ~np.isnan(R0.reshape(-1))
    init = {s: flat[s][keep] for s in names}
    n_grid = int(keep.sum())
    if offgrid and r.cont_states:
        off = {s: init[s].copy() for s in names}
        for s in r.cont_states:
            g = r.grids[s]
            hi = g[-1] if r.kind[s] == "LogspaceGrid" else None
            off[s] = np.clip(init[s] * 1.07 + 0.113, g[0], hi)
        # third block: outside linear grids on both sides (extrapolation), cell mid-points of log grids
        out = {s: init[s].copy() for s in names}
        for s in r.cont_states:
            g = r.grids[s]
            k = np.arange(n_grid)
            if r.kind[s] == "LogspaceGrid":
                j = k % (len(g) - 1)
                out[s] = np.sqrt(g[j] * g[j + 1])
            else:
                step = g[1] - g[0]
                out[s] = np.where(k % 2 == 0, g[0] - 0.37 * step, g[-1] + 0.61 * step)
        init = {s: np.concatenate([init[s], off[s], out[s]]) for s in names}
    return init, n_grid


def to_jax(init):
    import jax.numpy as jnp

    return {s: jnp.array(v) for s, v in init.items()}


def lcm_simulate(model, params, init, V=None, seed=12345, additional_targets=None, target="simulate"):
    """Run the real simulation.  V: list of arrays (lcm layout) or None for solve_and_simulate."""
    import jax.numpy as jnp
    from lcm.entry_point import get_lcm_function

    sim, _ = get_lcm_function(model, targets=target, debug_mode=False)
    kw = {}
    if V is not None:
        kw["vf_arr_list"] = [jnp.asarray(v) for v in V]
    if additional_targets is not None:
        kw["additional_targets"] = additional_targets
    return sim(params, initial_states=to_jax(init), seed=seed, **kw)


def synthetic_values(r, R):
    """A fixed non-monotone synthetic value array per period, in lcm layout."""
    out = []
    for t in range(r.T):
        shape = r.to_lcm_layout(R[t], t).shape
        n = int(np.prod(shape))
        i = np.arange(n, dtype=np.float64)
        out.append((np.sin(1.3 * i + 0.7 * t) * 2.1 + 0.013 * i + ((i * 7) % 5) * 0.37).reshape(shape))
    return out


def check_rows(r, frame, Vfull, tol=1e-9):
    """C02 row oracle.  Vfull: list of full-layout arrays 'in use' (index t -> V_t).
    Returns (problems, n_rows_checked, n_rows_skipped_neg_inf)."""
    probs = []
    T = r.T
    n = len(frame) // T
    checked = skipped = 0
    for t in range(T):
        sub = frame.loc[t]
        rows = {s: np.asarray(sub[s].values) for s in r.states}
        Vn = Vfull[t + 1] if t < T - 1 else None
        q, feas = r.row_objective(rows, t, Vn)
        qq = np.where(feas, q, -np.inf).reshape(n, -1)
        best = qq.max(axis=1)
        val = np.asarray(sub["value"].values, dtype=float)
        idx = []
        for c in r.choices:
            g = r.grids[c]
            if c not in sub.columns:
                probs.append((t, -1, "missing-choice-column", c))
                return probs, checked, skipped
            cv = np.asarray(sub[c].values, dtype=float)
            j = np.abs(g[None, :] - cv[:, None]).argmin(axis=1)
            off = ~(np.abs(g[j] - cv) <= 1e-9 * (1 + np.abs(cv)))
            for i in np.where(off)[0][:3]:
                probs.append((t, int(i), "choice-not-on-grid", f"{c}={cv[i]!r}"))
            idx.append(j)
        shape_c = tuple(len(r.grids[c]) for c in r.choices)
        flat = np.ravel_multi_index(tuple(idx), shape_c) if idx else np.zeros(n, int)
        qc = qq[np.arange(n), flat]
        has_feasible = np.broadcast_to(feas, q.shape).reshape(n, -1).any(axis=1)
        for i in range(n):
            if not np.isfinite(best[i]):
                if has_feasible[i] and np.isneginf(best[i]):
                    # every feasible choice has objective -inf: any FEASIBLE grid choice attains the maximum
                    checked += 1
                    fl = np.broadcast_to(feas, q.shape).reshape(n, -1)[i, flat[i]]
                    if not fl:
                        probs.append((t, i, "chosen-infeasible", f"state { {s: float(rows[s][i]) for s in r.states} } choice { {c: float(sub[c].values[i]) for c in r.choices} } (all feasible choices have objective -inf, the reported one is not feasible)"))
                    if not (val[i] == best[i]):
                        probs.append((t, i, "value-mismatch", f"value {val[i]!r} != max {best[i]!r}"))
                else:
                    skipped += 1
                continue
            checked += 1
            sc = 1 + abs(best[i])
            ch = {c: float(sub[c].values[i]) for c in r.choices}
            st = {s: float(rows[s][i]) for s in r.states}
            if not np.isfinite(qc[i]):
                probs.append((t, i, "chosen-infeasible", f"state {st} choice {ch}"))
            elif abs(qc[i] - best[i]) > tol * sc:
                probs.append((t, i, "not-maximiser", f"state {st} choice {ch}: objective {qc[i]!r} < max {best[i]!r}"))
            if not (abs(val[i] - best[i]) <= tol * sc):
                probs.append((t, i, "value-mismatch", f"state {st}: value {val[i]!r} != max {best[i]!r}"))
    return probs, checked, skipped


def family_members(k, features=None, base=None):
    """Canonical (normalised), deduplicated members of Family_k; returns (list of (fv, dev), n_invalid)."""
    feats = family.FEATURES if features is None else features
    out, seen, invalid = [], set(), 0
    for fv in family.enumerate_family(k, base=base or family.BASE, features=feats):
        n = family.normalise(fv)
        if n is None:
            invalid += 1
            continue
        i = fv_id(n)
        if i in seen:
            continue
        seen.add(i)
        out.append((n, sum(1 for f in n if n[f] != family.BASE[f])))
    return out, invalid


def structural_zeros(fv, params):
    """h=excl: P(h'=1 | s, d) = 0 whenever next_s = clip(s+d, 0, 2) = 2 (the filter excludes (s=2, h=1))."""
    if fv.get("h") != "excl" or "shocks" not in params:
        return params
    import jax.numpy as jnp

    a = np.array(params["shocks"]["h"], dtype=np.float64)
    for s_ in range(a.shape[0]):
        for d_ in range(a.shape[1]):
            if min(max(s_ + d_, 0), 2) == 2:
                a[s_, d_] = [1.0, 0.0]
    params = dict(params)
    params["shocks"] = dict(params["shocks"])
    params["shocks"]["h"] = jnp.asarray(a)
    return params


def near_tie_agents(r, Vfull, rel_gap=3e-6, max_agents=4):
    """Agents that are NEARLY (relative gap ~3e-6, far above rounding noise, far below 1e-5) indifferent between
    two values of the restricted discrete choice `d` in period 0: off-grid wealth found by bisection on the
    REFERENCE objective.  Returns a dict state -> array (possibly empty)."""
    if "w" not in r.cont_states or r.kind["w"] != "LinspaceGrid" or "d" not in r.choices or "d" not in r.restricted:
        return {}
    Vn = Vfull[1] if r.T > 1 else None
    di = r.choices.index("d")
    others = [s for s in r.states if s != "w"]
    in0 = r.in_space(0)
    found = []

    def gap(w, fixed):
        rows = {s: np.array([fixed[s]]) for s in others}
        rows["w"] = np.array([w])
        q, feas = r.row_objective(rows, 0, Vn)
        qq = np.where(feas, q, -np.inf)[0]
        qq = np.moveaxis(qq, di, 0).reshape(len(r.grids["d"]), -1).max(axis=1)
        with np.errstate(invalid="ignore"):
            return qq[0] - qq[1], max(abs(qq[0]), abs(qq[1]))

    g = r.grids["w"]
    combos = list(itertools.product(*[range(len(r.grids[s])) for s in others]))
    for combo in combos:
        fixed = {s: r.grids[s][k] for s, k in zip(others, combo)}
        idx = tuple(combo[others.index(s)] if s != "w" else 0 for s in r.states)
        if not in0[idx]:
            continue
        for a, b in zip(g[:-1], g[1:]):
            ga, _ = gap(a, fixed)
            gb, _ = gap(b, fixed)
            if not (np.isfinite(ga) and np.isfinite(gb)) or ga * gb >= 0:
                continue
            for sign in (+1.0, -1.0):
                lo, hi = a, b
                flo = ga
                for _ in range(60):
                    mid = 0.5 * (lo + hi)
                    gm, sc = gap(mid, fixed)
                    target = sign * rel_gap * (1 + sc)
                    if (gm - target) * (flo - target) > 0:
                        lo, flo = mid, gm
                    else:
                        hi = mid
                w_star = 0.5 * (lo + hi)
                gm, sc = gap(w_star, fixed)
                if np.isfinite(gm) and 0.3 * rel_gap * (1 + sc) < abs(gm) < 3 * rel_gap * (1 + sc):
                    found.append({**fixed, "w": w_star})
            if len(found) >= max_agents:
                break
        if len(found) >= max_agents:
            break
    if not found:
        return {}
    return {s: np.array([f[s] for f in found]) for s in r.states}
