"""Bounded exhaustive exploration ("model checking") harness for OpenSourceEconomics/lcm."""
