"""CLI:  python -m mc.run C01 --tier quick|thorough [--only <case-id-substring>]
         python -m mc.run --replay <file>
"""
from __future__ import annotations

import argparse
import os
import sys


def main(argv=None) -> int:
    ap = argparse.ArgumentParser()
    ap.add_argument("prop", nargs="?")
    ap.add_argument("--tier", default=os.environ.get("VERIF_TIER", "quick"), choices=["quick", "thorough"])
    ap.add_argument("--replay")
    ap.add_argument("--only")
    ap.add_argument("--list", action="store_true")
    a = ap.parse_args(argv)
    from mc import explore

    if a.replay:
        return explore.replay(a.replay)
    if not a.prop:
        ap.error("property id required")
    seed = int(os.environ.get("VERIF_SEED", "0") or 0)
    if a.list:
        import importlib

        mod = importlib.import_module(f"mc.checks.{a.prop.lower()}")
        for c in mod.cases(a.tier, seed):
            print(c["id"])
        return 0
    return explore.run_check(a.prop.upper(), a.tier, seed, only=a.only)


if __name__ == "__main__":
    sys.exit(main())
