"""Exploration driver shared by all checks.

A *check module* (mc/checks/cNN.py) exposes

    ID, ENGINE, RULE, ASSUMPTIONS, BOUND(tier) -> dict
    cases(tier, seed) -> list[dict]     every dict JSON-serialisable, with key "id"
    run_case(case) -> dict              outcome, see `outcome()` below

The driver enumerates *all* cases of the tier (no sampling), runs each one on the
real code in a pool of spawn-ed worker processes, matches violations against
known_findings.json, writes replay artefacts and the evidence file and returns the
exit code (0 held / 1 violation / 2 infrastructure failure).
"""
from __future__ import annotations

import hashlib
import importlib
import json
import multiprocessing as mp
import os
import sys
import time
import traceback

from mc import compat, findings

N_WORKERS = int(os.environ.get("VERIF_WORKERS", "16"))


# --------------------------------------------------------------------------------------
# helpers for check modules
# --------------------------------------------------------------------------------------
def digest(*objs) -> str:
    h = hashlib.sha256()
    for o in objs:
        h.update(_canon(o))
    return h.hexdigest()[:20]


def _canon(o) -> bytes:
    import numpy as np

    if isinstance(o, bytes):
        return o
    if isinstance(o, str):
        return o.encode()
    if isinstance(o, (int, float, bool)) or o is None:
        return repr(o).encode()
    if isinstance(o, dict):
        return b"{" + b",".join(_canon(k) + b":" + _canon(o[k]) for k in sorted(o, key=str)) + b"}"
    if isinstance(o, (list, tuple)):
        return b"[" + b",".join(_canon(x) for x in o) + b"]"
    a = np.asarray(o)
    if a.dtype == object:  # bytes of an object array are addresses
        return b"O" + str(a.shape).encode() + _canon([_canon(x) for x in a.reshape(-1).tolist()])
    return str(a.dtype).encode() + str(a.shape).encode() + np.ascontiguousarray(a).tobytes()


def outcome(**kw) -> dict:
    out = {
        "status": "ok",  # ok | violation | skipped
        "skip_reason": "",
        "states": 0,
        "transitions": 0,
        "traces": 0,
        "digest": "",
        "nontrivial": True,
        "violations": [],
        "counters": {},
    }
    out.update(kw)
    return out


def violation(oracle, stage, signal, message, **extra) -> dict:
    v = {"oracle": oracle, "stage": stage, "signal": signal, "message": str(message)[:2000]}
    v.update(extra)
    return v


def jsonable(o):
    import numpy as np

    if isinstance(o, dict):
        return {str(k): jsonable(v) for k, v in o.items()}
    if isinstance(o, (list, tuple)):
        return [jsonable(x) for x in o]
    if isinstance(o, (str, int, bool)) or o is None:
        return o
    if isinstance(o, float):
        return o if o == o and abs(o) != float("inf") else repr(o)
    if isinstance(o, np.generic):
        return jsonable(o.item())
    try:
        a = np.asarray(o)
        if a.size <= 400:
            return jsonable(a.tolist())
        return {"shape": list(a.shape), "dtype": str(a.dtype), "head": jsonable(a.reshape(-1)[:50].tolist())}
    except Exception:
        return repr(o)[:500]


# --------------------------------------------------------------------------------------
# worker side
# --------------------------------------------------------------------------------------
_MOD = None


def _init_worker(modname, hashseed_note):
    global _MOD
    compat.setup()
    _MOD = importlib.import_module(modname)
    if hasattr(_MOD, "worker_init"):
        _MOD.worker_init()


def _work(case):
    t0 = time.time()
    try:
        out = _MOD.run_case(case)
    except Exception as e:  # an exception escaping the oracle = behaviour of the code under test
        out = outcome(
            status="violation",
            violations=[
                violation(
                    "no-exception",
                    "harness",
                    "EXC:" + type(e).__name__,
                    f"{type(e).__name__}: {e}",
                    traceback=traceback.format_exc()[-3000:],
                )
            ],
        )
    out["wall"] = time.time() - t0
    out["case"] = case
    return out


# --------------------------------------------------------------------------------------
# driver
# --------------------------------------------------------------------------------------
def run_check(prop: str, tier: str, seed: int, only: str | None = None) -> int:
    t0 = time.time()
    modname = f"mc.checks.{prop.lower()}"
    mod = importlib.import_module(modname)
    cases = mod.cases(tier, seed)
    ids = [c["id"] for c in cases]
    assert len(ids) == len(set(ids)), "case ids must be unique"
    if only:
        cases = [c for c in cases if c["id"] == only or only in c["id"]]
        # a filtered run must not overwrite the evidence of the registered (complete) command
        os.environ.setdefault("VERIF_EVIDENCE_DIR", os.path.join(compat.VERIF_ROOT, ".cache", "evidence-partial"))
    budget = float(os.environ.get("VERIF_BUDGET_S", getattr(mod, "BUDGET_S", {}).get(tier, 1e9)))
    # determinism probe: the first case is executed twice (in different workers)
    probe = dict(cases[0], _probe=True) if cases and getattr(mod, "DETERMINISM_PROBE", True) else None
    work = list(cases) + ([probe] if probe else [])
    if hasattr(mod, "cost"):
        work.sort(key=lambda c: -mod.cost(c))
    results = []
    capped = False
    infra_error = None
    nworkers = min(N_WORKERS, max(1, len(work)))
    ctx = mp.get_context("spawn")
    env_hash = os.environ.get("PYTHONHASHSEED")
    if getattr(mod, "PIN_HASHSEED", True):
        os.environ["PYTHONHASHSEED"] = "0"
    try:
        if getattr(mod, "IN_PROCESS", False) or nworkers == 1 and os.environ.get("VERIF_INPROC") == "1":
            _init_worker(modname, None)
            for c in work:
                results.append(_work(c))
        else:
            with ctx.Pool(nworkers, initializer=_init_worker, initargs=(modname, None), maxtasksperchild=getattr(mod, "MAXTASKS", None)) as pool:
                it = pool.imap_unordered(_work, work, chunksize=1)
                for _ in range(len(work)):
                    remaining = budget - (time.time() - t0)
                    if remaining <= 0:
                        capped = True
                        pool.terminate()
                        break
                    try:
                        results.append(it.next(timeout=max(1.0, remaining)))
                    except mp.TimeoutError:
                        capped = True
                        pool.terminate()
                        break
    except Exception as e:  # pool breakage
        infra_error = f"{type(e).__name__}: {e}\n{traceback.format_exc()[-2000:]}"
    finally:
        if env_hash is None:
            os.environ.pop("PYTHONHASHSEED", None)
        else:
            os.environ["PYTHONHASHSEED"] = env_hash

    if infra_error:
        print(f"INFRASTRUCTURE-ERROR property={prop}: {infra_error}")
        return 2

    # determinism probe
    if probe:
        pr = [r for r in results if r["case"].get("_probe")]
        base = [r for r in results if not r["case"].get("_probe") and r["case"]["id"] == probe["id"]]
        results = [r for r in results if not r["case"].get("_probe")]
        if pr and base and pr[0]["digest"] != base[0]["digest"]:
            print(
                f"INFRASTRUCTURE-ERROR property={prop}: nondeterministic replay of case {probe['id']}: "
                f"{base[0]['digest']} vs {pr[0]['digest']}"
            )
            return 2

    if hasattr(mod, "finalize"):
        # cross-case oracle (e.g. equal digests of the same call across histories / processes)
        for cid, v in mod.finalize(results):
            for r in results:
                if r["case"]["id"] == cid:
                    r["status"] = "violation"
                    r["violations"].append(v)
                    break
    return _report(mod, prop, tier, seed, cases, results, capped, time.time() - t0)


def _report(mod, prop, tier, seed, cases, results, capped, wall) -> int:
    known = findings.load()
    n_viol = 0
    known_hit = []
    printed = 0
    viol_lines = []
    results.sort(key=lambda r: (getattr(mod, "case_rank", lambda c: 0)(r["case"]), r["case"]["id"]))
    for r in results:
        if r["status"] != "violation":
            continue
        unlisted = []
        for v in r["violations"]:
            k = findings.match(known, prop, r["case"], v)
            if k is not None:
                known_hit.append((k, r["case"]["id"], v))
            else:
                unlisted.append(v)
        if unlisted:
            n_viol += 1
            path = write_replay(mod, prop, tier, seed, r["case"], unlisted)
            viol_lines.append((path, r["case"]["id"], unlisted[0]))
    seen_k = set()
    for k, cid, v in known_hit:
        if k["id"] in seen_k:
            continue
        seen_k.add(k["id"])
        print(f"KNOWN-FINDING: property={prop} {k['id']}: {k['what']} (e.g. case {cid}: {v['signal']} at {v['stage']})")
    for path, cid, v in viol_lines[:20]:
        print(f"VIOLATION property={prop} replay={path}")
        print(f"  case={cid} oracle={v['oracle']} stage={v['stage']} signal={v['signal']}: {v['message'][:300]}")
        printed += 1
    if len(viol_lines) > 20:
        print(f"  ... and {len(viol_lines) - 20} more violating cases")

    ok = [r for r in results if r["status"] == "ok"]
    skipped = [r for r in results if r["status"] == "skipped"]
    nontriv = {r["digest"] for r in results if r["status"] != "skipped" and r.get("nontrivial") and r["digest"]}
    outcomes = {r["digest"] for r in results if r["digest"]}
    counters = {}
    for r in results:
        for k, v in r.get("counters", {}).items():
            counters[k] = counters.get(k, 0) + v
    skip_reasons = {}
    for r in skipped:
        skip_reasons[r["skip_reason"]] = skip_reasons.get(r["skip_reason"], 0) + 1
    states = sum(r["states"] for r in results)
    transitions = sum(r["transitions"] for r in results)
    traces = sum(r["traces"] for r in results)
    samples = []
    for r in (ok[:2] + ok[-1:] if ok else results[:2]):
        samples.append(
            {
                "case": r["case"],
                "status": r["status"],
                "states": r["states"],
                "transitions": r["transitions"],
                "digest": r["digest"],
                "sample": r.get("sample"),
            }
        )
    static_caps = list(mod.CAPS(tier)) if hasattr(mod, "CAPS") else []
    vacuous = len(results) >= 4 and len(outcomes) <= 1 and not getattr(mod, "SINGLE_OUTCOME_OK", False)
    ev = {
        "property_id": prop,
        "tier": tier,
        "seed": seed,
        "level": "model_checking",
        "coverage": {
            "states": states,
            "transitions": transitions,
            "traces_validated_against_impl": traces,
            "samples": jsonable(samples),
            "evaluations": len(results),
            "distinct_nontrivial": len(nontriv),
            "rule": mod.RULE,
            "exhaustive": (not capped) and len(results) == len(cases) and not static_caps,
            "bound": jsonable(mod.BOUND(tier)) if hasattr(mod, "BOUND") else {},
            "cases_enumerated": len(cases),
            "cases_executed": len(results),
            "caps_hit": (["wall-time budget reached: %d of %d cases executed" % (len(results), len(cases))] if capped else []) + static_caps,
            "skipped": skip_reasons,
            "distinct_outcomes": len(outcomes),
            "known_findings_hit": sorted(seen_k),
            "counters": counters,
            "engine": getattr(mod, "ENGINE", ""),
            "compat_shim_installed": compat.SHIM_INSTALLED,
        },
        "assumptions": list(getattr(mod, "ASSUMPTIONS", [])),
        "wall_s": round(wall, 2),
        "violations": n_viol,
    }
    if hasattr(mod, "coverage_extra"):
        try:
            ev["coverage"].update(jsonable(mod.coverage_extra(results)))
        except Exception as e:
            ev["coverage"]["coverage_extra_error"] = repr(e)
    evdir = os.environ.get("VERIF_EVIDENCE_DIR") or os.path.join(compat.VERIF_ROOT, "evidence")
    os.makedirs(evdir, exist_ok=True)
    with open(os.path.join(evdir, f"{prop}.json"), "w") as f:
        json.dump(ev, f, indent=1, sort_keys=True)
    print(
        f"[{prop} {tier} seed={seed}] cases={len(results)}/{len(cases)} ok={len(ok)} skipped={len(skipped)} "
        f"violating={n_viol} known={len(known_hit)} states={states} transitions={transitions} traces={traces} "
        f"distinct_outcomes={len(outcomes)} distinct_nontrivial={len(nontriv)} capped={capped} wall={wall:.1f}s"
    )
    if skip_reasons:
        print(f"  skipped: {skip_reasons}")
    if counters:
        print(f"  counters: {counters}")
    if n_viol:
        return 1
    if vacuous:
        print(f"INFRASTRUCTURE-ERROR property={prop}: vacuous exploration (one distinct outcome from {len(results)} cases)")
        return 2
    if not results:
        print(f"INFRASTRUCTURE-ERROR property={prop}: no case executed")
        return 2
    return 0


def write_replay(mod, prop, tier, seed, case, violations) -> str:
    d = os.path.join(os.environ.get("VERIF_REPLAY_DIR") or os.path.join(compat.VERIF_ROOT, "replay"), prop)
    os.makedirs(d, exist_ok=True)
    cid = hashlib.sha256(case["id"].encode()).hexdigest()[:12]
    path = os.path.join(d, f"{cid}.json")
    doc = {
        "property": prop,
        "case_id": case["id"],
        "engine": getattr(mod, "ENGINE", ""),
        "tier": tier,
        "seed": seed,
        "case": case,
        "violations": jsonable(violations),
        "how_to_replay": f"cd /verif && /venv/bin/python -m mc.run --replay {path}",
    }
    if hasattr(mod, "replay_extra"):
        try:
            doc.update(jsonable(mod.replay_extra(case)))
        except Exception as e:  # never let artefact decoration hide the violation
            doc["replay_extra_error"] = repr(e)
    with open(path, "w") as f:
        json.dump(doc, f, indent=1)
    try:  # a plain test that replays the case without the explorer (no pool, no driver)
        with open(path[:-5] + "_test.py", "w") as f:
            f.write(
                '"""Replay of one violating case of %s without the explorer: python %s"""\n'
                "import json, sys\nsys.path.insert(0, %r)\nfrom mc import compat\ncompat.setup()\n"
                "from mc.checks import %s as mod\n\nCASE = json.loads(%r)\n\n\ndef test_replay():\n"
                "    if hasattr(mod, 'worker_init'):\n        mod.worker_init()\n    out = mod.run_case(CASE)\n"
                "    assert out['status'] != 'violation', out['violations']\n\n\nif __name__ == '__main__':\n    test_replay()\n    print('property holds on this case')\n"
                % (prop, os.path.basename(path)[:-5] + "_test.py", compat.VERIF_ROOT, prop.lower(), json.dumps(case))
            )
    except Exception:
        pass
    return path


def replay(path: str) -> int:
    doc = json.load(open(path))
    prop = doc["property"]
    compat.setup()
    mod = importlib.import_module(f"mc.checks.{prop.lower()}")
    if hasattr(mod, "worker_init"):
        mod.worker_init()
    global _MOD
    _MOD = mod
    r = _work(doc["case"])
    known = findings.load()
    bad = [v for v in r["violations"] if findings.match(known, prop, doc["case"], v) is None]
    print(json.dumps(jsonable({"status": r["status"], "violations": r["violations"]}), indent=1)[:6000])
    if bad:
        print(f"VIOLATION property={prop} replay={path}")
        return 1
    print(f"replay of {doc['case_id']}: property {prop} holds")
    return 0
