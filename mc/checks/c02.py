"""C02 - simulated decisions are feasible maximisers of the agent's objective.

Engine E1: every model of the family is simulated (jit on) with all in-space grid states
plus an off-grid copy of each as agents; every (period, agent) row is checked against the
reference objective over ALL grid choice combinations at the row's reported state, with
the value arrays in use (lcm's own solution, and a synthetic non-monotone array).
"""
from __future__ import annotations

import numpy as np

from mc import e1, family
from mc.explore import digest, outcome, violation

ID = "C02"
ENGINE = "E1"
RULE = (
    "complete Family_1(B0) plus Family_2 restricted to the interaction-prone features (quick) / complete Family_2 "
    "(thorough); per model: agents = every in-space grid state of period 0 + one off-grid copy each; value arrays "
    "{own solution, synthetic}; every (period, agent) row is an oracle evaluation; non-trivial = supported model with "
    ">= 1 row checked, distinct by digest of the simulated frame"
)
ASSUMPTIONS = [
    "reference objective mc/refmodel.py; any maximiser within 1e-9 relative tolerance is accepted (ties are legal)",
    "rows whose reference maximum is -inf are excluded (counted)",
    "constraint thresholds of generated models are incommensurable with grid values, so feasibility is never decided by rounding",
]
BUDGET_S = {"quick": 1500, "thorough": 7200}
PRONE = ["filt", "e", "cc", "h", "cons", "wgrid"]


def BOUND(tier):
    return {"family": "Family_1 + Family_2|prone" if tier == "quick" else "Family_2 + Family_3|prone(filt,e,cc,cons)", "prone": PRONE, "value_arrays": ["own", "synthetic"]}


def cases(tier, seed):
    out, seen = [], set()

    def add(members):
        for fv, dev in members:
            i = e1.fv_id(fv)
            if i not in seen:
                seen.add(i)
                out.append({"id": i, "fv": fv, "dev": dev, "seed": seed, "tier": tier})

    if tier == "quick":
        add(e1.family_members(1)[0])
        add(e1.family_members(2, {k: family.FEATURES[k] for k in PRONE})[0])
    else:
        add(e1.family_members(2)[0])
        add(e1.family_members(3, {k: family.FEATURES[k] for k in ["filt", "e", "cc", "cons"]})[0])
    # explicit members: two continuous states where the FIRST declared one has the smaller grid
    for extra in ({"k": "lin"}, {"k": "log"}, {"k": "lin", "wgrid": "extrap"}):
        fv = family.normalise(dict(family.BASE, order="srev", **extra))
        i = e1.fv_id(fv)
        if i not in seen:
            seen.add(i)
            out.append({"id": i, "fv": fv, "dev": 1 + len(extra), "seed": seed, "tier": tier})
    # explicit members: a second filter that involves no state (choice and period only)
    for extra in ({"filt": "dp"}, {"filt": "dp", "e": 1}, {"filt": "dp", "T": 4}):
        fv = family.normalise(dict(family.BASE, **extra))
        if e1.fv_id(fv) not in seen:
            seen.add(e1.fv_id(fv))
            out.append({"id": e1.fv_id(fv), "fv": fv, "dev": len(extra), "seed": seed, "tier": tier})
    # explicit size letters: many periods, fine state grid
    for extra in ({"T": 6}, {"T": 6, "filt": "grow", "e": 1}, {"wgrid": "fine"}):
        fv = family.normalise(dict(family.BASE, **extra))
        if e1.fv_id(fv) not in seen:
            seen.add(e1.fv_id(fv))
            out.append({"id": e1.fv_id(fv), "fv": fv, "dev": len(extra), "seed": seed, "tier": tier})
    # explicit member: the product of the continuous choice grids exceeds 2^15 (flat policy index needs > 16 bits)
    fv = family.normalise(dict(family.BASE, cc="big", T=2))
    out.append({"id": e1.fv_id(fv), "fv": fv, "dev": 2, "seed": seed, "tier": tier})
    seen.add(e1.fv_id(fv))
    # explicit members: lower-bound constraint + -inf utility at feasible points (T=1, so the model is supported)
    for extra in ({}, {"e": 1}, {"cc": "cl"}, {"filt": "none"}):
        fv = family.normalise(dict(family.BASE, cons="lower", T=1, **extra))
        i = e1.fv_id(fv)
        if i not in seen:
            seen.add(i)
            out.append({"id": i, "fv": fv, "dev": 2 + len(extra), "seed": seed, "tier": tier})
    return out


def case_rank(case):
    return case["dev"]


def cost(case):
    fv = case["fv"]
    c = fv["T"] * (2 if fv["k"] != "none" else 1) * (1.5 if fv["h"] != "none" else 1) * (1.5 if fv["cc"] == "cl" else 1)
    return c


def run_model(fv, seed, valuations=("default",), value_arrays=("own", "synthetic"), offgrid=True):
    b = e1.Built(fv, seed)
    if not b.valid:
        return outcome(status="skipped", skip_reason="invalid-combo", nontrivial=False)
    viols = []
    rows = skipped_rows = traces = n_near = 0
    dig = []
    why = None
    for vname in valuations:
        params = b.params(vname, 0.9 if vname == "default" else 0.95)
        r, R, why = e1.reference(b.model, params)
        if why:
            continue
        try:
            V, _, _ = e1.lcm_solve(b.model, params)
        except Exception as e:
            viols.append(violation("runs", "solve", "EXC:" + type(e).__name__, str(e)[:500], params=vname))
            continue
        init, n_grid = e1.initial_states(r, R[0], offgrid=offgrid)
        n_near = 0
        if offgrid:
            # agents that are nearly indifferent between the restricted discrete alternatives (gap ~3e-6 relative)
            try:
                near = e1.near_tie_agents(r, [r.from_lcm_layout(v, t) for t, v in enumerate(V)])
            except Exception:
                near = {}
            if near:
                n_near = len(next(iter(near.values())))
                init = {s: np.concatenate([init[s], np.asarray(near[s], dtype=init[s].dtype)]) for s in init}
        for va in value_arrays:
            if va == "own":
                Vuse = V
            else:
                Vuse = e1.synthetic_values(r, R)
            try:
                Vfull = [r.from_lcm_layout(v, t) for t, v in enumerate(Vuse)]
            except ValueError as e:
                viols.append(violation("layout", "solve", "SHAPE", str(e), params=vname))
                continue
            try:
                fr = e1.lcm_simulate(b.model, params, init, V=Vuse)
            except Exception as e:
                viols.append(violation("runs", "simulate", "EXC:" + type(e).__name__, str(e)[:500], params=vname, value_array=va))
                continue
            traces += 1
            if va != "own" and r.T <= 3:
                # a function built for target solve_and_simulate must also use value arrays that the caller passes
                try:
                    from lcm.entry_point import get_lcm_function

                    sas, _ = get_lcm_function(b.model, targets="solve_and_simulate", debug_mode=False)
                    import jax.numpy as jnp

                    fr_sas = sas(params, initial_states=e1.to_jax(init), vf_arr_list=[jnp.asarray(v) for v in Vuse], seed=12345)
                    if not np.array_equal(fr_sas.to_numpy(dtype=np.float64), fr.to_numpy(dtype=np.float64)):
                        viols.append(violation("value-arrays-in-use", "simulate", "FRAME", "the solve_and_simulate function ignores the value arrays passed by the caller (frame differs from simulate with the same arrays)", params=vname, value_array=va))
                except Exception as e:
                    viols.append(violation("runs", "simulate", "EXC:" + type(e).__name__, f"solve_and_simulate with vf_arr_list: {str(e)[:300]}", params=vname))
            n = len(next(iter(init.values())))
            if len(fr) != n * r.T:
                viols.append(violation("panel", "simulate", "SHAPE", f"{len(fr)} rows for {n} agents x {r.T} periods", params=vname, value_array=va))
                continue
            r.touched_excluded = False
            r.left_log_range = False
            probs, chk, skp = e1.check_rows(r, fr, Vfull)
            if r.touched_excluded or r.left_log_range:
                # a simulated row evaluates the value function outside the supported region
                why = "unsupported:simulated-row-reaches-excluded-state-or-leaves-log-range"
                continue
            rows += chk
            skipped_rows += skp
            dig.append(fr.to_numpy())
            for p in probs[:3]:
                viols.append(violation("row-" + p[2], "simulate", "ROW", f"period {p[0]} agent {p[1]}: {p[3]}", params=vname, value_array=va, period=p[0], agent=p[1]))
    if not traces and not viols:
        return outcome(status="skipped", skip_reason=why or "unsupported", nontrivial=False)
    return outcome(
        status="violation" if viols else "ok",
        violations=viols,
        states=rows,
        transitions=traces * b.fv["T"],
        traces=traces,
        digest=digest(dig),
        nontrivial=rows > 0,
        counters={"rows_skipped_neg_inf": skipped_rows, "unsupported_runs": 1 if why else 0, "near_tie_agents": n_near if traces else 0},
    )


def run_case(case):
    vals = ("default",) if case["tier"] == "quick" else ("default", "perturbed")
    return run_model(case["fv"], case["seed"], valuations=vals)


def replay_extra(case):
    b = e1.Built(case["fv"], case["seed"])
    return {"model_source": b.text if b.valid else None}
