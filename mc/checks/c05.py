"""C05 - value arrays follow the documented axis layout.

Engine E1 with its own program generator: state sets drawn from a pool of 3 discrete and 2
continuous states (all grid sizes pairwise different) x ALL permutations of the declaration
order x ALL subsets of restricted discrete states x period-dependent filter on/off x choice
order reversed on/off (deviation-bounded around a default configuration).  Every entry of
every period's array must equal the reference value at the state the layout contract
assigns to that index.
"""
from __future__ import annotations

import itertools

import numpy as np

from mc import e1, refmodel
from mc.explore import digest, outcome, violation

ID = "C05"
ENGINE = "E1"
POOL = {"s": "D(3)", "g": "D(2)", "m": "D(4)", "w": "Lin(1, 5, 5)", "k": "Log(0.5, 2.0, 6)"}
DISC = ["s", "g", "m"]
RULE = (
    "state sets = all non-empty subsets (size <= 4 thorough, <= 3 quick + rotations of the 4-sets) of the pool {s:3,g:2,m:4,"
    "w:lin5,k:log6}; block P: ALL permutations of the declaration order with the default restriction; block R: default "
    "order x ALL subsets of restricted discrete states x period-dependent filter {off,on,states-only,mixed,single-combination-in-period-0} x choices reversed {off,on} x "
    "functions reversed; per model every period and every entry of the array is compared; distinct by digest of arrays"
)
ASSUMPTIONS = ["layout contract implemented in mc/refmodel.Ref.to_lcm_layout; values from the reference Bellman solution (asymmetric in the states, so every transposition changes some entry)", "1e-9 relative"]
BUDGET_S = {"quick": 1500, "thorough": 5400}


def BOUND(tier):
    return {"pool": POOL, "max_states": 4, "permutations": "all (<= 24)", "restricted_subsets": "all"}


def _id(c):
    return f"states={','.join(c['order'])}|restricted={','.join(c['restricted']) or '-'}|pfilter={c['pfilter'] if isinstance(c['pfilter'], str) else int(c['pfilter'])}|crev={int(c['crev'])}|frev={int(c['frev'])}"


def cases(tier, seed):
    out, seen = [], set()

    def add(order, restricted, pfilter, crev, frev, block):
        c = {"order": list(order), "restricted": sorted(restricted), "pfilter": pfilter, "crev": crev, "frev": frev, "seed": seed, "block": block}
        c["id"] = _id(c)
        if c["id"] not in seen:
            seen.add(c["id"])
            out.append(c)

    names = list(POOL)
    for size in (1, 2, 3, 4):
        for sset in itertools.combinations(names, size):
            disc = [x for x in sset if x in DISC]
            default_r = disc[:1]
            perms = list(itertools.permutations(sset))
            if size == 4 and tier == "quick":
                perms = [tuple(sset[i:] + sset[:i]) for i in range(4)] + [tuple(reversed(sset))]
            for perm in perms:
                add(perm, default_r, False, False, False, "P")
            for k in range(len(disc) + 1):
                for rset in itertools.combinations(disc, k):
                    for pf in (False, True):
                        if pf and not rset:
                            continue
                        for crev in (False, True):
                            add(sset, rset, pf, crev, False, "R")
                    add(tuple(reversed(sset)), rset, bool(rset), True, True, "R")
                    if rset:
                        add(sset, rset, "sonly", False, False, "R")
                        add(sset, rset, "sonly", True, True, "R")
                        add(sset, rset, "mix", False, False, "R")
                        add(sset, rset, "mix", False, True, "R")
                        # period 0 has EXACTLY ONE feasible combination of the restricted states (axis of length 1 stays)
                        add(sset, rset, "single", False, False, "R")
                        add(sset, rset, "single-sonly", True, False, "R")
    # large cases (sizes beyond the small alphabet): many unrestricted variables; many restricted combinations
    out.append({"id": "large-17-unrestricted-variables", "block": "L", "large": "many_vars", "order": [], "restricted": [], "pfilter": False, "crev": False, "frev": False, "seed": seed})
    out.append({"id": "large-12-periods", "block": "L", "large": "many_periods", "order": [], "restricted": [], "pfilter": False, "crev": False, "frev": False, "seed": seed})
    out.append({"id": "large-272-restricted-combinations", "block": "L", "large": "many_combos", "order": [], "restricted": [], "pfilter": False, "crev": False, "frev": False, "seed": seed})
    # histories: models that share every name but differ in the filter body, built in ONE process
    variants = [False, True, "alt"]
    for L_ in (2, 3):
        for seq in itertools.product(range(3), repeat=L_):
            if len(set(seq)) > 1:
                c = {"order": ["s", "g", "w"], "restricted": ["g", "s"], "pfilter": False, "crev": False, "frev": False, "seed": seed, "block": "H", "history": [variants[i] for i in seq]}
                c["id"] = "history-" + ">".join(str(variants[i]) for i in seq)
                out.append(c)
    return out


def cost(case):
    return 2 ** len(case["order"])


def build_large(case):
    from mc import family

    if case["large"] == "many_vars":
        # 11 unrestricted discrete states (sizes 2/3), wealth; 4 discrete choices, consumption: 17 variables
        snames = ["z1", "a2", "y3", "b4", "x5", "c6", "w7", "d8", "v9", "e10", "u11"]
        sizes = [2, 3, 2, 2, 2, 2, 2, 2, 3, 2, 2]
        cnames = ["q1", "f2", "p3", "g4"]
        states = [(n, f"D({k})") for n, k in zip(snames, sizes)] + [("wealth", "Lin(1, 5, 3)")]
        choices = [(n, "D(2)") for n in cnames] + [("cons", "Lin(0.5, 2.0, 3)")]
        uterms = " + ".join(f"{0.013 * (i + 1):.3f} * {n} * (1 + {0.1 * (i % 3):.1f} * wealth)" for i, n in enumerate(snames))
        cterms = " + ".join(f"{0.07 * (i + 1):.2f} * {n} * ({snames[i]} + 0.5)" for i, n in enumerate(cnames))
        L = [f"def utility({', '.join(snames)}, wealth, {', '.join(cnames)}, cons):\n    return jnp.log(cons) + {uterms} + {cterms}",
             "def next_wealth(wealth, cons):\n    return 0.9 * (wealth - 0.5 * cons) + 0.8",
             "def c_constraint(cons, wealth):\n    return cons <= wealth + 0.2371"]
        funcs = ["utility", "next_wealth", "c_constraint"]
        for n in snames:
            L.append(f"def next_{n}({n}):\n    return {n}")
            funcs.append(f"next_{n}")
    elif case["large"] == "many_periods":
        # twelve periods (two-digit period indices), period-dependent utility and filter
        T_ = 12
        states = [("s", "D(3)"), ("g", "D(2)"), ("wealth", "Lin(1, 5, 4)")]
        choices = [("d", "D(2)"), ("cons", "Lin(0.5, 2.0, 3)")]
        L = ["def utility(s, g, wealth, d, cons, _period):\n    return jnp.log(cons) + 0.31 * d * (s + 1) + 0.07 * g + 0.0137 * wealth - 0.017 * _period * d + 0.003 * _period * _period",
             "def r_filter(s, d, _period):\n    return jnp.logical_and(s <= 1 + _period, jnp.logical_or(d == 0, s < 2))",
             "def next_s(s):\n    return s",
             "def next_g(g):\n    return g",
             "def next_wealth(wealth, cons, d):\n    return 0.9 * (wealth - 0.5 * cons) + 0.6 + 0.3 * d",
             "def c_constraint(cons, wealth):\n    return cons <= wealth + 0.2371"]
        funcs = ["utility", "r_filter", "next_s", "next_g", "next_wealth", "c_constraint"]
    else:
        # two restricted states with 17 x 16 labels (272 combinations, all with a passing choice) + restricted choice
        states = [("exper", "D(17)"), ("tenure", "D(16)"), ("wealth", "Lin(1, 5, 4)")]
        choices = [("work", "D(2)"), ("cons", "Lin(0.5, 2.0, 3)")]
        L = ["def utility(exper, tenure, wealth, work, cons):\n    return jnp.log(cons) + 0.011 * exper * (1 + work) + 0.007 * tenure * wealth - 0.3 * work + 0.0003 * exper * tenure",
             "def et_filter(exper, tenure, work):\n    return jnp.logical_or(work == 0, tenure <= exper)",
             "def next_exper(exper):\n    return exper",
             "def next_tenure(tenure):\n    return tenure",
             "def next_wealth(wealth, cons, work):\n    return 0.9 * (wealth - 0.5 * cons) + 0.6 + 0.3 * work",
             "def c_constraint(cons, wealth):\n    return cons <= wealth + 0.2371"]
        funcs = ["utility", "et_filter", "next_exper", "next_tenure", "next_wealth", "c_constraint"]
    prelude = family.PRELUDE.replace('def D(n): return', 'def D(n): return')
    text = prelude + "\n\n".join(L) + "\n\nMODEL = Model(n_periods=" + str(12 if case["large"] == "many_periods" else 2) + ",\n    functions={%s},\n    choices={%s},\n    states={%s})\n" % (
        ", ".join(f'"{f}": {f}' for f in funcs), ", ".join(f'"{n}": {g}' for n, g in choices), ", ".join(f'"{n}": {g}' for n, g in states))
    ns = {}
    exec(text, ns)
    return text, ns["MODEL"], {"beta": 0.93, **{f: {} for f in funcs}}


def build(case):
    if case.get("large"):
        return build_large(case)
    order = case["order"]
    R = case["restricted"]
    L = []
    has_w, has_k = "w" in order, "k" in order
    coef = {"s": 0.31, "g": 0.17, "m": 0.113, "w": 0.0137, "k": 0.071}
    uargs = list(order) + ["d", "c"]
    terms = ["jnp.log(c) + 0.21 * d"]
    for i, a in enumerate(sorted(order)):
        terms.append(f"+ {coef[a]} * {a} * (1 + 0.5 * d)")
        for b in sorted(order)[i + 1 :]:
            terms.append(f"+ {round(coef[a] * coef[b] * 3.1 + 0.0007 * (i + 1), 6)} * {a} * {b}")
    L.append(f"def utility({', '.join(uargs)}, _period):\n    return (" + "\n        ".join(terms) + "\n        + 0.03 * _period)")
    funcs = ["utility"]
    if R:
        ssum = " + ".join(R)
        if case["pfilter"] == "mix":
            # one period-dependent and one period-independent filter (the latter declared last)
            L.append(f"def r_filter({', '.join(R)}, d, _period):\n    return jnp.logical_and(({ssum}) <= 1 + _period, d <= _period)")
            L.append(f"def q_filter({', '.join(R)}, d):\n    return jnp.logical_or(d == 0, ({ssum}) % 2 == 0)")
            funcs.append("r_filter")
            funcs.append("q_filter")
        elif case["pfilter"] == "sonly":
            # filter on STATES only: the choices stay unrestricted (dense) although there is a sparse axis
            L.append(f"def r_filter({', '.join(R)}):\n    return ({ssum}) != 2")
        elif case["pfilter"] == "single":
            L.append(f"def r_filter({', '.join(R)}, d, _period):\n    return jnp.logical_and(({ssum}) <= _period, jnp.logical_or(d == 0, ({ssum}) % 2 == 0))")
        elif case["pfilter"] == "single-sonly":
            L.append(f"def r_filter({', '.join(R)}, _period):\n    return ({ssum}) <= _period")
        elif case["pfilter"] == "alt":
            L.append(f"def r_filter({', '.join(R)}, d):\n    return jnp.logical_or(d == 0, ({ssum}) % 2 == 1)")
        elif case["pfilter"]:
            L.append(f"def r_filter({', '.join(R)}, d, _period):\n    return jnp.logical_and(({ssum}) <= 1 + _period, jnp.logical_or(d == 0, ({ssum}) % 2 == 0))")
        else:
            L.append(f"def r_filter({', '.join(R)}, d):\n    return jnp.logical_and(({ssum}) != 2, jnp.logical_or(d == 0, ({ssum}) % 2 == 0))")
        if case["pfilter"] != "mix":
            funcs.append("r_filter")
    if has_w:
        L.append("def c_constraint(c, w):\n    return c <= w + 0.2371")
        funcs.append("c_constraint")
    for a in order:
        if a == "w":
            L.append("def next_w(w, c, d):\n    return 0.9 * (w - 0.5 * c) + 0.8 + 0.25 * d")
        elif a == "k":
            L.append("def next_k(k, d):\n    return jnp.clip(0.8 * k + 0.3 + 0.1 * d, 0.5, 2.0)")
        else:
            L.append(f"def next_{a}({a}):\n    return {a}")
        funcs.append(f"next_{a}")
    if case["frev"]:
        funcs = funcs[::-1]
    states = [(a, POOL[a]) for a in order]
    choices = [("d", "D(2)"), ("c", "Lin(0.5, 3.0, 7)")]
    if case["crev"]:
        choices = choices[::-1]
    from mc import family

    text = family.PRELUDE + "\n\n".join(L) + "\n\nMODEL = Model(n_periods=3,\n    functions={%s},\n    choices={%s},\n    states={%s})\n" % (
        ", ".join(f'"{f}": {f}' for f in funcs),
        ", ".join(f'"{n}": {g}' for n, g in choices),
        ", ".join(f'"{n}": {g}' for n, g in states),
    )
    ns = {}
    exec(text, ns)
    params = {"beta": 0.93, **{f: {} for f in funcs}}
    return text, ns["MODEL"], params


def run_case(case):
    if case.get("history"):
        agg = None
        for pf in case["history"]:
            sub = dict(case, pfilter=pf)
            sub.pop("history")
            out = run_case(sub)
            if agg is None:
                agg = out
            else:
                for k in ("states", "transitions", "traces"):
                    agg[k] += out[k]
                agg["violations"] += [dict(v, message=f"after building {case['history']} in one process, filter variant {pf}: " + v["message"]) for v in out["violations"]]
                agg["digest"] = digest(agg["digest"], out["digest"])
                if out["status"] == "violation":
                    agg["status"] = "violation"
        return agg
    text, model, params = build(case)
    r, R, why = e1.reference(model, params)
    if why:
        return outcome(status="skipped", skip_reason=why, nontrivial=False)
    viols, cnt, dig = [], 0, []
    try:
        V, _, _ = e1.lcm_solve(model, params)
    except Exception as e:
        return outcome(status="violation", violations=[violation("runs", "solve", "EXC:" + type(e).__name__, str(e)[:400])], digest="exc")
    dig.append(V)
    if len(V) != r.T:
        viols.append(violation("chronological-list", "solve", "LENGTH", f"{len(V)} arrays for {r.T} periods"))
    else:
        rs, dd, dc = r.layout_order()
        for t in range(r.T):
            exp = r.to_lcm_layout(R[t], t)
            a = np.asarray(V[t])
            if a.shape != exp.shape:
                viols.append(violation("layout-shape", "solve", "SHAPE", f"period {t}: shape {a.shape}, contract says {exp.shape} (restricted {rs} -> {int(r.in_space(t).any(axis=tuple(i for i, s in enumerate(r.states) if s not in rs)).sum()) if rs else '-'} feasible combinations; then {dd}; then {dc})", period=t))
                break
            ok = refmodel.close(a, exp)
            cnt += a.size
            if not ok.all():
                idx = tuple(int(i) for i in np.argwhere(~ok)[0])
                viols.append(violation("layout-entry", "solve", "VALUE", f"period {t} index {idx}: {a[idx]!r}, contract assigns the state with value {exp[idx]!r} ({int((~ok).sum())} of {a.size} entries differ)", period=t, index=list(idx)))
                break
    return outcome(status="violation" if viols else "ok", violations=viols, states=cnt, transitions=r.T, traces=1, digest=digest(dig), nontrivial=cnt > 0, sample={"model_source": text[-1200:]} if case["id"].startswith("states=s,g,w|") else None)


def replay_extra(case):
    return {"model_source": build(case)[0]}
