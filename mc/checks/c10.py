"""C10 - equivalent model specifications yield equal solutions.

Engine E1, differential oracle between two real executions (no reference values): for each
base model ALL permutations of the state order, ALL permutations of the choice order,
rotations/reversal/sorted order of the functions dict, three renaming schemes, an
always-true constraint / always-true filter over every subset (<= 2) of discrete variables,
and every filter of the alphabet rewritten as a constraint.  The two lcm solutions must
agree (1e-12) state by state after mapping both through the layout contract.
"""
from __future__ import annotations

import itertools
import re

import numpy as np

from mc import e1, family, refmodel
from mc.explore import digest, outcome, violation

ID = "C10"
ENGINE = "E1"
RULE = (
    "one case per (base model, rewriting class); base models = B0, fully discrete, stochastic + the Family_1 members that "
    "change the variable set (13 quick / all Family_1 thorough); rewriting classes enumerate ALL state permutations, ALL "
    "choice permutations, function-dict orders, 3 renamings, always-true constraint/filter over every subset <= 2 of discrete "
    "variables, filter<->constraint; each (rewriting, period, grid state) is an oracle evaluation; distinct by digest"
)
ASSUMPTIONS = ["differential: both sides are lcm solutions; the layout contract (C05) maps arrays to named states", "1e-12 relative (different axis orders compile to different vector code)"]
BUDGET_S = {"quick": 1500, "thorough": 5400}
BASE_DEVS = [
    {}, {"cc": "none", "wgrid": "disc"}, {"h": "hd", "filt": "none"},
    {"e": 1}, {"cc": "none"}, {"cc": "cl"}, {"wgrid": "disc"}, {"k": "lin"}, {"k": "log"}, {"g": 1}, {"h": "two"}, {"h": "hg"}, {"filt": "states"}, {"filt": "two"}, {"filt": "grow"}, {"filt": "mix"}, {"cc": "cl"}, {"filt": "se"}, {"h": "three"},
]
CLASSES = ["state-perms", "choice-perms", "func-orders", "renamings", "true-constraint", "true-filter", "filter-as-constraint"]


def BOUND(tier):
    return {"bases": BASE_DEVS if tier == "quick" else "all of Family_1", "rewritings": CLASSES}


def cases(tier, seed):
    out = []
    if tier == "quick":
        fvs = [dict(family.BASE, **d) for d in BASE_DEVS]
    else:
        fvs = [fv for fv, _ in e1.family_members(1)[0]] + [dict(family.BASE, **d) for d in BASE_DEVS if len(d) > 1]
    seen = set()
    for fv in fvs:
        n = family.normalise(fv)
        if n is None or e1.fv_id(n) in seen:
            continue
        seen.add(e1.fv_id(n))
        for cl in CLASSES:
            out.append({"id": f"{e1.fv_id(n)}|{cl}", "fv": n, "cls": cl, "seed": seed})
    # size letter: an always-true filter over two discrete states with 12 x 12 = 144 (> 2^7) combinations
    out.append({"id": "large-144-combinations|true-filter", "large": True, "cls": "true-filter", "fv": dict(family.BASE), "seed": seed})
    return out


def cost(case):
    return {"state-perms": 24, "choice-perms": 6, "func-orders": 10, "renamings": 3, "true-constraint": 10, "true-filter": 8, "filter-as-constraint": 2}[case["cls"]] * case["fv"]["T"]


def _rename(text, mapping):
    """Consistently rename variables in the model source (word boundaries; next_<v> too)."""
    for old, new in mapping.items():
        text = re.sub(rf"(?<![A-Za-z0-9_])next_{old}(?![A-Za-z0-9_])", f"next_{new}", text)
        text = re.sub(rf"(?<![A-Za-z0-9_]){old}(?![A-Za-z0-9_])", new, text)
    return text


def _is_disc(g):
    return g.startswith("D(")


def variants(fv, cls):
    """Yield (label, text, params_transform, name_map) for the rewriting class."""
    src, states, choices, funcs, P, shocks = family.make_source(fv)
    T = fv["T"]
    ident = {n: n for n, _ in states}

    def mk(states_=states, choices_=choices, funcs_=funcs, src_=src, keys=None):
        return family.assemble(T, src_, states_, choices_, funcs_, keys)

    if cls == "state-perms":
        for perm in itertools.permutations(states):
            if list(perm) != list(states):
                yield ("states " + ",".join(n for n, _ in perm), mk(states_=list(perm)), {}, ident)
    elif cls == "choice-perms":
        for perm in itertools.permutations(choices):
            if list(perm) != list(choices):
                yield ("choices " + ",".join(n for n, _ in perm), mk(choices_=list(perm)), {}, ident)
    elif cls == "func-orders":
        orders = []
        if len(funcs) <= 4:
            orders = [list(p) for p in itertools.permutations(funcs)]
        else:
            orders = [funcs[i:] + funcs[:i] for i in range(1, len(funcs))] + [funcs[::-1], sorted(funcs), sorted(funcs, reverse=True)]
        for o in orders:
            if o != funcs:
                yield ("functions " + ",".join(o), mk(funcs_=o), {}, ident)
    elif cls == "renamings":
        allv = [n for n, _ in states] + [n for n, _ in choices]
        schemes = {
            "alphabetical-order-inverted": {v: f"{chr(ord('z') - i)}q_{v}" for i, v in enumerate(allv)},
            "long-names": {v: f"{v}_variable_with_a_rather_long_descriptive_name" for v in allv},
            "shared-prefixes": {v: "va" + "r" * (i + 1) for i, v in enumerate(allv)},
        }
        for label, mp in schemes.items():
            text = _rename(mk(), mp)
            yield ("rename " + label, text, {"shock_rename": mp}, {n: mp[n] for n, _ in states})
    elif cls in ("true-constraint", "true-filter"):
        disc_states = [n for n, g in states if _is_disc(g)]
        disc = disc_states + [n for n, g in choices if _is_disc(g)]
        subs = [c for k in (1, 2) for c in itertools.combinations(disc, k)]
        for sub in subs:
            if cls == "true-filter" and not any(v in disc_states for v in sub):
                continue  # every filter must involve a state variable (supported-model condition)
            fname = "zz_true_" + "_".join(sub) + ("_constraint" if cls == "true-constraint" else "_filter")
            extra = f"\n\ndef {fname}({', '.join(sub)}):\n    return ({' + '.join(sub)}) >= 0"
            yield (f"{cls} over {sub}", mk(funcs_=funcs + [fname], src_=src + extra), {"add_func": fname}, ident)
    elif cls == "filter-as-constraint":
        filt = [f for f in funcs if f.endswith("_filter")]
        if filt:
            text = mk()
            mp = {f: f[: -len("_filter")] + "fc_constraint" for f in filt}
            for old, new in mp.items():
                text = re.sub(rf"(?<![A-Za-z0-9_]){old}(?![A-Za-z0-9_])", new, text)
            yield ("filters written as constraints", text, {"func_rename": mp}, ident)


def _params(base_params, tr):
    p = {k: (dict(v) if isinstance(v, dict) else v) for k, v in base_params.items()}
    if "add_func" in tr:
        p[tr["add_func"]] = {}
    if "func_rename" in tr:
        for old, new in tr["func_rename"].items():
            p[new] = p.pop(old)
    if "shock_rename" in tr:
        # transition functions are named after their state: next_<old> -> next_<new>
        for old, new in tr["shock_rename"].items():
            if f"next_{old}" in p:
                p[f"next_{new}"] = p.pop(f"next_{old}")
        if "shocks" in p:
            p["shocks"] = {tr["shock_rename"].get(k, k): v for k, v in p["shocks"].items()}
    return p


def _full_by_name(model, params, V):
    """Map lcm arrays to {period: (state names, full array)} via the layout contract."""
    r = refmodel.Ref(model, params)
    return r, [r.from_lcm_layout(np.asarray(v), t) for t, v in enumerate(V)]


def _run_large(case):
    src = (
        "def utility(exper, tenure, wealth, work, cons):\n    return jnp.log(cons) + 0.011 * exper * (1 + work) + 0.007 * tenure * wealth - 0.3 * work + 0.0003 * exper * tenure\n\n"
        "def next_exper(exper, work):\n    return jnp.clip(exper + work, 0, 11)\n\n"
        "def next_tenure(tenure, work):\n    return jnp.where(work == 1, jnp.clip(tenure + 1, 0, 11), 0)\n\n"
        "def next_wealth(wealth, cons, work):\n    return 0.9 * (wealth - 0.5 * cons) + 0.6 + 0.3 * work\n\n"
        "def c_constraint(cons, wealth):\n    return cons <= wealth + 0.2371\n\n"
        "def zz_true_filter(exper, tenure, work):\n    return exper + tenure + work >= 0\n"
    )
    states = [("exper", "D(12)"), ("tenure", "D(12)"), ("wealth", "Lin(1, 5, 4)")]
    choices = [("work", "D(2)"), ("cons", "Lin(0.5, 2.0, 3)")]
    base_funcs = ["utility", "next_exper", "next_tenure", "next_wealth", "c_constraint"]
    viols, cnt = [], 0
    try:
        m0 = family.exec_model(family.assemble(3, src, states, choices, base_funcs))
        m1 = family.exec_model(family.assemble(3, src, states, choices, base_funcs + ["zz_true_filter"]))
        p0 = {"beta": 0.93, **{f: {} for f in base_funcs}}
        p1 = {**p0, "zz_true_filter": {}}
        V0, _, _ = e1.lcm_solve(m0, p0)
        V1, _, _ = e1.lcm_solve(m1, p1)
        r0, F0 = _full_by_name(m0, p0, V0)
        r1, F1 = _full_by_name(m1, p1, V1)
        for t in range(3):
            ok = refmodel.close(F0[t], F1[t], 1e-12)
            cnt += F0[t].size
            if not ok.all():
                viols.append(violation("equivalent-spec", "compare", "VALUE", f"always-true filter over (exper, tenure, work) with 144 state combinations: period {t}: {int((~ok).sum())} of {ok.size} states differ", period=t))
                break
    except Exception as e:
        viols.append(violation("equivalent-spec", "solve", "EXC:" + type(e).__name__, str(e)[:300]))
    return outcome(status="violation" if viols else "ok", violations=viols, states=cnt, transitions=6, traces=2, digest=digest(cnt, [np.asarray(v) for v in V0] if not viols else "x"))


def run_case(case):
    if case.get("large"):
        return _run_large(case)
    b = e1.Built(case["fv"], case["seed"])
    params = b.params("perturbed", 0.95)
    _, R, why = e1.reference(b.model, params)
    if why:
        return outcome(status="skipped", skip_reason=why, nontrivial=False)
    viols, cnt, traces, dig = [], 0, 0, []
    try:
        V0, _, _ = e1.lcm_solve(b.model, params)
        r0, F0 = _full_by_name(b.model, params, V0)
    except Exception as e:
        return outcome(status="violation", violations=[violation("runs", "solve", "EXC:" + type(e).__name__, "base model: " + str(e)[:300])], digest="exc")
    for label, text, tr, name_map in variants(b.fv, case["cls"]):
        try:
            m2 = family.exec_model(text)
            p2 = _params(params, tr)
            V2, _, _ = e1.lcm_solve(m2, p2)
            r2, F2 = _full_by_name(m2, p2, V2)
        except Exception as e:
            viols.append(violation("equivalent-spec", "solve", "EXC:" + type(e).__name__, f"{label}: {str(e)[:300]}", rewriting=label))
            break
        traces += 1
        dig.append(V2)
        # transpose the rewritten model's full arrays into the base model's state order
        perm = [r2.states.index(name_map[s]) for s in r0.states]
        for t in range(r0.T):
            a = F0[t]
            c = np.transpose(F2[t], perm)
            both = ~np.isnan(a) & ~np.isnan(c)
            if case["cls"] not in ("filter-as-constraint",) and (np.isnan(a) != np.isnan(c)).any():
                viols.append(violation("equivalent-spec", "compare", "SPACE", f"{label}: period {t}: the set of states in the space differs", rewriting=label))
                break
            ok = refmodel.close(a[both], c[both], 1e-12)
            cnt += int(both.sum())
            if not ok.all():
                j = int(np.argwhere(~ok)[0][0])
                viols.append(violation("equivalent-spec", "compare", "VALUE", f"{label}: period {t}: {int((~ok).sum())} of {ok.size} states differ, e.g. {a[both][j]!r} vs {c[both][j]!r}", rewriting=label, period=t))
                break
        if viols:
            break
    if traces == 0 and not viols:
        return outcome(status="skipped", skip_reason="no-rewriting-of-this-class", nontrivial=False)
    return outcome(status="violation" if viols else "ok", violations=viols, states=cnt, transitions=traces * b.fv["T"], traces=traces, digest=digest(dig), nontrivial=traces > 0, counters={"rewritings": traces})


def replay_extra(case):
    return {"rewritings": [(l, t) for l, t, _, _ in variants(family.normalise(case["fv"]), case["cls"])][:30]}
