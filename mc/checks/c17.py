"""C17 - the state-choice space contains exactly the filter-passing combinations.

Engine E2: for each shape of restricted variables EVERY truth table over the cells is
realised as a period-indexed lookup filter of a real processed model and passed through the
real create_state_choice_space; configurations (filter split, extra unrestricted variables,
is_last_period, jit_filter) are explored deviation-bounded around a base configuration.
"""
from __future__ import annotations

import itertools

import numpy as np

from mc.explore import digest, outcome, violation

ID = "C17"
ENGINE = "E2"
RULE = (
    "one case per (shape of restricted variables, configuration, block of <= 64 truth tables); every table is one "
    "period of a real model (filter = lookup table indexed by _period) => one create_state_choice_space call per "
    "table; oracle = reference list of passing combinations, indexer and segments; non-trivial = block executed, "
    "distinct by digest of all stored combination arrays"
)
ASSUMPTIONS = [
    "restricted variables: <= 2 states and <= 2 choices with 2-3 labels (<= 16 cells); the 16-cell shape is always capped",
    "quick tier caps shapes with > 8 cells at the tables with <= 2 or >= n-2 true cells plus 256 tables in lexicographic stride (reported as cap)",
]
BUDGET_S = {"quick": 1200, "thorough": 5400}
# names are chosen so that the canonical order (restricted states in declaration order, then
# restricted choices) differs from the alphabetical order of the names
SHAPES = {
    "q2|m2": (("q",), (2,), ("m",), (2,)),
    "q3|m2": (("q",), (3,), ("m",), (2,)),
    "q2,b2|m2": (("q", "b"), (2, 2), ("m",), (2,)),
    "q2|m2,c2": (("q",), (2,), ("m", "c"), (2, 2)),
    "q2,b3|m2": (("q", "b"), (2, 3), ("m",), (2,)),
    "q2|m3,c2": (("q",), (2,), ("m", "c"), (3, 2)),
    "q2,b2|m2,c2": (("q", "b"), (2, 2), ("m", "c"), (2, 2)),
    "q150|m2": (("q",), (150,), ("m",), (2,)),  # more than 128 feasible restricted-state combinations
    "q17,b16|m2": (("q", "b"), (17, 16), ("m",), (2,)),  # more than 256 combinations of TWO restricted states
    "q2|": (("q",), (2,), (), ()),
    "q2,b3|": (("q", "b"), (2, 3), (), ()),
}
BASE_CFG = {"split": "one", "extras": True, "last": False, "jit": False}
BLOCK = 64


def BOUND(tier):
    return {"shapes": list(SHAPES), "configs": "all 24 for shapes <= 6 cells; base + single deviations otherwise", "tables": "all 2^cells" if tier == "thorough" else "all 2^cells for <= 8 cells; capped for 12 cells"}


def CAPS(tier):
    caps = []
    if tier == "quick":
        caps.append("16-cell shape q2,b2|m2,c2: tables with <= 2 or >= 14 true cells plus 256 tables in lexicographic stride (of 65536); complete in the thorough tier for the base configuration")
        caps.append("12-cell shapes: tables with <= 2 or >= 10 true cells plus 256 tables in stride (of 4096); complete in the thorough tier for the base configuration")
    else:
        caps.append("12- and 16-cell shapes, non-base configurations: capped table set as in the quick tier (base configuration: all 4096 resp. 65536 tables)")
    return caps


def _configs(ncells):
    if ncells > 64:
        return [dict(BASE_CFG), dict(BASE_CFG, extras=False), dict(BASE_CFG, last=True)]
    all_cfgs = [dict(split=s, extras=e, last=l, jit=j) for s in ("one", "two", "aux") for e in (True, False) for l in (False, True) for j in (False, True)]
    if ncells <= 6:
        return all_cfgs
    out = [dict(BASE_CFG)]
    for k, vals in (("split", ("two", "aux")), ("extras", (False,)), ("last", (True,)), ("jit", (True,))):
        for v in vals:
            c = dict(BASE_CFG)
            c[k] = v
            out.append(c)
    return out


def _tables(ncells, tier, base_cfg):
    if ncells > 64:
        # large shape: a handful of structured tables (all true, first/last states empty, alternating)
        allt = 2 ** ncells - 1
        alt = int("10" * (ncells // 2), 2)
        return [allt, allt >> 6, allt ^ 0b111111, alt, allt ^ alt, allt ^ (1 << (ncells // 2))], True
    full = list(range(2 ** ncells))
    if ncells <= 8 or (tier == "thorough" and base_cfg):
        return full, False
    keep = [t for t in full if bin(t).count("1") <= 2 or bin(t).count("1") >= ncells - 2]
    keep += full[:: len(full) // 256]
    return sorted(set(keep)), True


def cases(tier, seed):
    out = []
    for sname, (sn, ss, cn, cs) in SHAPES.items():
        ncells = int(np.prod(ss + cs))
        for cfg in _configs(ncells):
            base = cfg == BASE_CFG
            if ncells > 8 and not base:
                tabs, capped = _tables(ncells, "quick", False)
            else:
                tabs, capped = _tables(ncells, tier, base)
            for b in range(0, len(tabs), BLOCK):
                blk = tabs[b : b + BLOCK]
                cid = f"{sname}-split={cfg['split']}-extras={int(cfg['extras'])}-last={int(cfg['last'])}-jit={int(cfg['jit'])}-tables{blk[0]}..{blk[-1]}"
                out.append({"id": cid, "shape": sname, "cfg": cfg, "tables": blk, "capped": capped})
    # pipeline clause: the spaces that get_lcm_function actually uses for every period
    from mc import e1, family

    for fv, dev in e1.family_members(1 if tier == "quick" else 2, None if tier == "quick" else {k: family.FEATURES[k] for k in ["filt", "e", "h", "T", "g", "order"]})[0]:
        if fv["filt"] != "none" or fv["h"] == "restricted":
            out.append({"id": "pipeline-" + e1.fv_id(fv), "kind": "pipeline", "fv": fv, "cfg": dict(BASE_CFG), "tables": [], "capped": False, "shape": "-"})
    return out


def cost(case):
    return max(len(case["tables"]), 8)


def case_rank(case):
    return sum(case["cfg"][k] != BASE_CFG[k] for k in BASE_CFG)


def build_model(sname, cfg, tables):
    """Real lcm Model whose filter in period p is truth table tables[p]."""
    from dataclasses import make_dataclass

    import jax.numpy as jnp
    from lcm import DiscreteGrid, LinspaceGrid, Model

    sn, ss, cn, cs = SHAPES[sname]

    def D(n):
        return DiscreteGrid(make_dataclass(f"C{n}", [(f"c{i}", int, i) for i in range(n)]))

    names = list(sn) + list(cn)
    shape = tuple(ss) + tuple(cs)
    ncells = int(np.prod(shape))
    T = np.array([[(t >> (ncells - 1 - i)) & 1 for i in range(ncells)] for t in tables], dtype=bool).reshape((len(tables), *shape))
    states, choices = {}, {}
    # declaration order interleaves unrestricted variables between the restricted ones
    if cfg["extras"]:
        states["w"] = LinspaceGrid(start=1, stop=2, n_points=3)
    for i, (n, k) in enumerate(zip(sn, ss)):
        states[n] = D(k)
        if cfg["extras"] and i == 0:
            states["g"] = D(2)
    if cfg["extras"]:
        choices["e"] = D(3)
        choices["z"] = LinspaceGrid(start=0.1, stop=1, n_points=4)
    for n, k in zip(cn, cs):
        choices[n] = D(k)
    allv = list(states) + list(choices)
    ns = {"jnp": jnp}
    src = "def utility(" + ", ".join(allv) + "):\n    return " + " + ".join(f"{1.0 + 0.3 * i} * {v}" for i, v in enumerate(allv)) + "\n"
    exec(src, ns)
    functions = {"utility": ns["utility"]}
    idx = ", ".join(names)
    if cfg["split"] == "one":
        ns["TAB"] = jnp.asarray(T)
        exec(f"def t_filter({idx}, _period):\n    return TAB[_period][{idx}]\n", ns)
        functions["t_filter"] = ns["t_filter"]
    elif cfg["split"] == "two":
        R = (np.indices(shape).sum(axis=0) % 2 == 0)[None]
        ns["TAB1"] = jnp.asarray(T | R)
        ns["TAB2"] = jnp.asarray(T | ~R)
        exec(f"def t1_filter({idx}, _period):\n    return TAB1[_period][{idx}]\n", ns)
        exec(f"def t2_filter({idx}, _period):\n    return TAB2[_period][{idx}]\n", ns)
        functions["t1_filter"] = ns["t1_filter"]
        functions["t2_filter"] = ns["t2_filter"]
    else:  # filter through an auxiliary function
        ns["TAB"] = jnp.asarray(T)
        exec(f"def cell({idx}, _period):\n    return TAB[_period][{idx}]\n", ns)
        exec("def t_filter(cell):\n    return cell\n", ns)
        functions["cell"] = ns["cell"]
        functions["t_filter"] = ns["t_filter"]
    for s in states:
        exec(f"def next_{s}({s}):\n    return {s}\n", ns)
        functions[f"next_{s}"] = ns[f"next_{s}"]
    return Model(n_periods=max(len(tables), 1), functions=functions, choices=choices, states=states), T


def _run_pipeline(case):
    """The per-period spaces held by the function returned by get_lcm_function(jit=False)."""
    from lcm.entry_point import get_lcm_function
    from mc import e1, refmodel

    b = e1.Built(case["fv"], 0)
    r = refmodel.Ref(b.model, b.params("default"))
    viols, cnt, dig = [], 0, []
    try:
        solve, _ = get_lcm_function(b.model, targets="solve", debug_mode=False, jit=False)
        spaces = solve.keywords["state_choice_spaces"]
        indexers = solve.keywords["state_indexers"]
    except Exception as e:
        return outcome(status="violation", violations=[violation("space", "get_lcm_function", "EXC:" + type(e).__name__, str(e)[:300])], digest="exc")
    rnames = [v for v in r.states if v in r.restricted] + [v for v in r.choices if v in r.restricted]
    rstates = [v for v in r.states if v in r.restricted]
    env = r.env_full()
    for t in range(r.T):
        shape_all = tuple(len(r.grids[v]) for v in r.states + r.choices)
        filt = np.ones(shape_all, bool)
        memo = {}
        for f in r.filters:
            filt = filt & np.broadcast_to(r.ev(f, env, t, memo).astype(bool), shape_all)
        # filters only see restricted variables: project the mask onto them (canonical order)
        allv = r.states + r.choices
        other = tuple(i for i, v in enumerate(allv) if v not in rnames)
        m = filt.all(axis=other) if other else filt
        keep = [v for v in allv if v in rnames]
        m = np.transpose(m, [keep.index(v) for v in rnames])
        combos = [idx for idx in itertools.product(*[range(k) for k in m.shape]) if m[idx]]
        sv = {k: np.asarray(v) for k, v in spaces[t].sparse_vars.items()}
        cnt += 1
        dig.append([sv.get(n) for n in rnames])
        problems = []
        if list(sv) != rnames:
            problems.append(f"stored restricted variables {list(sv)} != canonical order {rnames}")
        else:
            for j, n in enumerate(rnames):
                exp = np.array([r.grids[n][c[j]] for c in combos])
                if sv[n].shape != exp.shape or not np.array_equal(sv[n], exp):
                    problems.append(f"period {t}: stored values of {n}: {sv[n].tolist()} expected {exp.tolist()}")
                    break
        # the indexer handed to period t describes V_{t+1} (empty for the last period)
        if t < r.T - 1 and rstates:
            ns_ = len(rstates)
            shape_all1 = shape_all
            filt1 = np.ones(shape_all1, bool)
            memo = {}
            for f in r.filters:
                filt1 = filt1 & np.broadcast_to(r.ev(f, env, t + 1, memo).astype(bool), shape_all1)
            m1 = filt1.all(axis=other) if other else filt1
            m1 = np.transpose(m1, [keep.index(v) for v in rnames])
            ok1 = m1.reshape(m1.shape[:ns_] + (-1,)).any(axis=-1)
            ranks = np.full(ok1.shape, -1)
            ranks[ok1] = np.arange(int(ok1.sum()))
            got = indexers[t].get("state_indexer") if isinstance(indexers[t], dict) else None
            if got is None or not np.array_equal(np.asarray(got), ranks):
                problems.append(f"period {t}: state indexer for the next-period values {None if got is None else np.asarray(got).tolist()} expected {ranks.tolist()}")
        if problems and not viols:
            viols.append(violation("space", "pipeline", "VALUE", f"model {case['id']}: " + "; ".join(problems[:2])))
    return outcome(status="violation" if viols else "ok", violations=viols, states=cnt, transitions=cnt, traces=cnt, digest=digest(dig, case["id"]))


def run_case(case):
    if case.get("kind") == "pipeline":
        return _run_pipeline(case)
    from lcm.input_processing import process_model
    from lcm.state_space import create_state_choice_space

    sname, cfg = case["shape"], case["cfg"]
    sn, ss, cn, cs = SHAPES[sname]
    viols, cnt, dig = [], 0, []
    try:
        model, T = build_model(sname, cfg, case["tables"])
        mod = process_model(model)
    except Exception as e:
        return outcome(status="violation", violations=[violation("space", "process_model", "EXC:" + type(e).__name__, f"{sname} {cfg}: {e}")], digest="exc")
    names = list(sn) + list(cn)
    shape = tuple(ss) + tuple(cs)
    ns_ = len(sn)
    for p, t in enumerate(case["tables"]):
        try:
            space, info, indexers, segments = create_state_choice_space(model=mod, period=p, is_last_period=cfg["last"], jit_filter=cfg["jit"])
        except Exception as e:
            viols.append(violation("space", "create_state_choice_space", "EXC:" + type(e).__name__, f"{sname} {cfg} table {t}: {str(e)[:300]}", split=cfg["split"]))
            break
        cnt += 1
        mask = T[p]
        # ---- reference
        combos = [idx for idx in itertools.product(*[range(k) for k in shape]) if mask[idx]]  # row-major canonical order
        state_ok = mask.reshape(tuple(ss) + (-1,)).any(axis=-1) if cn else mask
        ranks = np.full(tuple(ss), -1)
        ranks[state_ok] = np.arange(int(state_ok.sum()))
        seg = [int(ranks[idx[:ns_]]) for idx in combos]
        problems = []
        sv = {k: np.asarray(v) for k, v in space.sparse_vars.items()}
        if list(sv) != names:
            problems.append(f"stored restricted variables {list(sv)} != canonical order {names}")
        else:
            for j, n in enumerate(names):
                exp = np.array([c[j] for c in combos], dtype=np.int64)
                if sv[n].shape != exp.shape or not np.array_equal(sv[n], exp):
                    problems.append(f"stored values of {n}: {sv[n].tolist()} expected {exp.tolist()}")
                    break
        dig.append([sv.get(n) for n in names])
        ind = indexers.get("state_indexer")
        if ind is None or np.asarray(ind).shape != ranks.shape or not np.array_equal(np.asarray(ind), ranks):
            problems.append(f"state indexer {None if ind is None else np.asarray(ind).tolist()} expected {ranks.tolist()}")
        if segments is None:
            problems.append("no choice segments")
        else:
            sid = np.asarray(segments["segment_ids"])
            if sid.tolist() != seg or int(segments["num_segments"]) != int(state_ok.sum()):
                problems.append(f"segments {sid.tolist()}/{segments['num_segments']} expected {seg}/{int(state_ok.sum())}")
        # unrestricted variables stored as full grids (continuous choices are not part of the space)
        want_dense = {}
        if cfg["extras"]:
            want_dense = {"g": [0, 1], "e": [0, 1, 2], "w": [1.0, 1.5, 2.0]}
        dv = {k: np.asarray(v).tolist() for k, v in space.dense_vars.items()}
        if set(dv) != set(want_dense) or any(not np.allclose(dv[k], want_dense[k]) for k in want_dense):
            problems.append(f"unrestricted variables stored as {dv}, expected full grids {want_dense}")
        if info.axis_names[:1] != ["state_index"]:
            problems.append(f"axis names {info.axis_names}")
        if problems and not viols:
            viols.append(violation("space", "compare", "VALUE", f"{sname} {cfg} truth table {t:0{int(np.prod(shape))}b}"[:200] + ": " + "; ".join(p_[:300] for p_ in problems), split=cfg["split"]))
    return outcome(
        status="violation" if viols else "ok",
        violations=viols,
        states=cnt,
        transitions=cnt,
        traces=cnt,
        digest=digest(dig, sname, str(cfg)),
        counters={"capped_table_sets": 1 if case["capped"] else 0},
    )
