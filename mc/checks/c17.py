"""C17 - the state-choice space contains exactly the filter-passing combinations.

Engine E2: for each shape of restricted variables EVERY truth table over the cells is
realised as a period-indexed lookup filter of a real processed model and passed through the
real create_state_choice_space; configurations (filter split, extra unrestricted variables,
is_last_period, jit_filter) are explored deviation-bounded around a base configuration.
"""
from __future__ import annotations

import itertools

import numpy as np

from mc.explore import digest, outcome, violation

ID = "C17"
ENGINE = "E2"
RULE = (
    "one case per (shape of restricted variables, configuration, block of <= 64 truth tables); every table is one "
    "period of a real model (filter = lookup table indexed by _period) => one create_state_choice_space call per "
    "table; oracle = reference list of passing combinations, indexer and segments; non-trivial = block executed, "
    "distinct by digest of all stored combination arrays"
)
ASSUMPTIONS = [
    "restricted variables: <= 2 states and <= 2 choices with 2-3 labels (<= 16 cells); the 16-cell shape is always capped",
    "quick tier caps shapes with > 8 cells at the tables with <= 2 or >= n-2 true cells plus 256 tables in lexicographic stride (reported as cap)",
]
BUDGET_S = {"quick": 1200, "thorough": 5400}
SHAPES = {
    "a2|x2": (("a",), (2,), ("x",), (2,)),
    "a3|x2": (("a",), (3,), ("x",), (2,)),
    "a2,b2|x2": (("a", "b"), (2, 2), ("x",), (2,)),
    "a2|x2,y2": (("a",), (2,), ("x", "y"), (2, 2)),
    "a2,b3|x2": (("a", "b"), (2, 3), ("x",), (2,)),
    "a2|x3,y2": (("a",), (2,), ("x", "y"), (3, 2)),
    "a2,b2|x2,y2": (("a", "b"), (2, 2), ("x", "y"), (2, 2)),
    "a2|": (("a",), (2,), (), ()),
    "a2,b3|": (("a", "b"), (2, 3), (), ()),
}
BASE_CFG = {"split": "one", "extras": True, "last": False, "jit": False}
BLOCK = 64


def BOUND(tier):
    return {"shapes": list(SHAPES), "configs": "all 24 for shapes <= 6 cells; base + single deviations otherwise", "tables": "all 2^cells" if tier == "thorough" else "all 2^cells for <= 8 cells; capped for 12 cells"}


def CAPS(tier):
    caps = ["16-cell shape a2,b2|x2,y2: tables with <= 2 or >= 14 true cells plus 256 tables in lexicographic stride (of 65536)"]
    if tier == "quick":
        caps.append("12-cell shapes: tables with <= 2 or >= 10 true cells plus 256 tables in stride (of 4096); complete in the thorough tier for the base configuration")
    else:
        caps.append("12-cell shapes, non-base configurations: capped table set as in the quick tier")
    return caps


def _configs(ncells):
    all_cfgs = [dict(split=s, extras=e, last=l, jit=j) for s in ("one", "two", "aux") for e in (True, False) for l in (False, True) for j in (False, True)]
    if ncells <= 6:
        return all_cfgs
    out = [dict(BASE_CFG)]
    for k, vals in (("split", ("two", "aux")), ("extras", (False,)), ("last", (True,)), ("jit", (True,))):
        for v in vals:
            c = dict(BASE_CFG)
            c[k] = v
            out.append(c)
    return out


def _tables(ncells, tier, base_cfg):
    full = list(range(2 ** ncells))
    if ncells <= 8 or (tier == "thorough" and base_cfg and ncells <= 12):
        return full, False
    keep = [t for t in full if bin(t).count("1") <= 2 or bin(t).count("1") >= ncells - 2]
    keep += full[:: len(full) // 256]
    return sorted(set(keep)), True


def cases(tier, seed):
    out = []
    for sname, (sn, ss, cn, cs) in SHAPES.items():
        ncells = int(np.prod(ss + cs))
        for cfg in _configs(ncells):
            base = cfg == BASE_CFG
            if ncells > 8 and not base:
                tabs, capped = _tables(ncells, "quick", False)
            else:
                tabs, capped = _tables(ncells, tier, base)
            for b in range(0, len(tabs), BLOCK):
                blk = tabs[b : b + BLOCK]
                cid = f"{sname}-split={cfg['split']}-extras={int(cfg['extras'])}-last={int(cfg['last'])}-jit={int(cfg['jit'])}-tables{blk[0]}..{blk[-1]}"
                out.append({"id": cid, "shape": sname, "cfg": cfg, "tables": blk, "capped": capped})
    return out


def cost(case):
    return len(case["tables"])


def case_rank(case):
    return sum(case["cfg"][k] != BASE_CFG[k] for k in BASE_CFG)


def build_model(sname, cfg, tables):
    """Real lcm Model whose filter in period p is truth table tables[p]."""
    from dataclasses import make_dataclass

    import jax.numpy as jnp
    from lcm import DiscreteGrid, LinspaceGrid, Model

    sn, ss, cn, cs = SHAPES[sname]

    def D(n):
        return DiscreteGrid(make_dataclass(f"C{n}", [(f"c{i}", int, i) for i in range(n)]))

    names = list(sn) + list(cn)
    shape = tuple(ss) + tuple(cs)
    ncells = int(np.prod(shape))
    T = np.array([[(t >> (ncells - 1 - i)) & 1 for i in range(ncells)] for t in tables], dtype=bool).reshape((len(tables), *shape))
    states, choices = {}, {}
    # declaration order interleaves unrestricted variables between the restricted ones
    if cfg["extras"]:
        states["w"] = LinspaceGrid(start=1, stop=2, n_points=3)
    for i, (n, k) in enumerate(zip(sn, ss)):
        states[n] = D(k)
        if cfg["extras"] and i == 0:
            states["g"] = D(2)
    if cfg["extras"]:
        choices["e"] = D(3)
        choices["c"] = LinspaceGrid(start=0.1, stop=1, n_points=4)
    for n, k in zip(cn, cs):
        choices[n] = D(k)
    allv = list(states) + list(choices)
    ns = {"jnp": jnp}
    src = "def utility(" + ", ".join(allv) + "):\n    return " + " + ".join(f"{1.0 + 0.3 * i} * {v}" for i, v in enumerate(allv)) + "\n"
    exec(src, ns)
    functions = {"utility": ns["utility"]}
    idx = ", ".join(names)
    if cfg["split"] == "one":
        ns["TAB"] = jnp.asarray(T)
        exec(f"def t_filter({idx}, _period):\n    return TAB[_period][{idx}]\n", ns)
        functions["t_filter"] = ns["t_filter"]
    elif cfg["split"] == "two":
        R = (np.indices(shape).sum(axis=0) % 2 == 0)[None]
        ns["TAB1"] = jnp.asarray(T | R)
        ns["TAB2"] = jnp.asarray(T | ~R)
        exec(f"def t1_filter({idx}, _period):\n    return TAB1[_period][{idx}]\n", ns)
        exec(f"def t2_filter({idx}, _period):\n    return TAB2[_period][{idx}]\n", ns)
        functions["t1_filter"] = ns["t1_filter"]
        functions["t2_filter"] = ns["t2_filter"]
    else:  # filter through an auxiliary function
        ns["TAB"] = jnp.asarray(T)
        exec(f"def cell({idx}, _period):\n    return TAB[_period][{idx}]\n", ns)
        exec("def t_filter(cell):\n    return cell\n", ns)
        functions["cell"] = ns["cell"]
        functions["t_filter"] = ns["t_filter"]
    for s in states:
        exec(f"def next_{s}({s}):\n    return {s}\n", ns)
        functions[f"next_{s}"] = ns[f"next_{s}"]
    return Model(n_periods=max(len(tables), 1), functions=functions, choices=choices, states=states), T


def run_case(case):
    from lcm.input_processing import process_model
    from lcm.state_space import create_state_choice_space

    sname, cfg = case["shape"], case["cfg"]
    sn, ss, cn, cs = SHAPES[sname]
    viols, cnt, dig = [], 0, []
    try:
        model, T = build_model(sname, cfg, case["tables"])
        mod = process_model(model)
    except Exception as e:
        return outcome(status="violation", violations=[violation("space", "process_model", "EXC:" + type(e).__name__, f"{sname} {cfg}: {e}")], digest="exc")
    names = list(sn) + list(cn)
    shape = tuple(ss) + tuple(cs)
    ns_ = len(sn)
    for p, t in enumerate(case["tables"]):
        try:
            space, info, indexers, segments = create_state_choice_space(model=mod, period=p, is_last_period=cfg["last"], jit_filter=cfg["jit"])
        except Exception as e:
            viols.append(violation("space", "create_state_choice_space", "EXC:" + type(e).__name__, f"{sname} {cfg} table {t}: {str(e)[:300]}", split=cfg["split"]))
            break
        cnt += 1
        mask = T[p]
        # ---- reference
        combos = [idx for idx in itertools.product(*[range(k) for k in shape]) if mask[idx]]  # row-major canonical order
        state_ok = mask.reshape(tuple(ss) + (-1,)).any(axis=-1) if cn else mask
        ranks = np.full(tuple(ss), -1)
        ranks[state_ok] = np.arange(int(state_ok.sum()))
        seg = [int(ranks[idx[:ns_]]) for idx in combos]
        problems = []
        sv = {k: np.asarray(v) for k, v in space.sparse_vars.items()}
        if list(sv) != names:
            problems.append(f"stored restricted variables {list(sv)} != canonical order {names}")
        else:
            for j, n in enumerate(names):
                exp = np.array([c[j] for c in combos], dtype=np.int64)
                if sv[n].shape != exp.shape or not np.array_equal(sv[n], exp):
                    problems.append(f"stored values of {n}: {sv[n].tolist()} expected {exp.tolist()}")
                    break
        dig.append([sv.get(n) for n in names])
        ind = indexers.get("state_indexer")
        if ind is None or np.asarray(ind).shape != ranks.shape or not np.array_equal(np.asarray(ind), ranks):
            problems.append(f"state indexer {None if ind is None else np.asarray(ind).tolist()} expected {ranks.tolist()}")
        if segments is None:
            problems.append("no choice segments")
        else:
            sid = np.asarray(segments["segment_ids"])
            if sid.tolist() != seg or int(segments["num_segments"]) != int(state_ok.sum()):
                problems.append(f"segments {sid.tolist()}/{segments['num_segments']} expected {seg}/{int(state_ok.sum())}")
        # unrestricted variables stored as full grids (continuous choices are not part of the space)
        want_dense = {}
        if cfg["extras"]:
            want_dense = {"g": [0, 1], "e": [0, 1, 2], "w": [1.0, 1.5, 2.0]}
        dv = {k: np.asarray(v).tolist() for k, v in space.dense_vars.items()}
        if set(dv) != set(want_dense) or any(not np.allclose(dv[k], want_dense[k]) for k in want_dense):
            problems.append(f"unrestricted variables stored as {dv}, expected full grids {want_dense}")
        if info.axis_names[:1] != ["state_index"]:
            problems.append(f"axis names {info.axis_names}")
        if problems and not viols:
            viols.append(violation("space", "compare", "VALUE", f"{sname} {cfg} truth table {t:0{int(np.prod(shape))}b}: " + "; ".join(problems), split=cfg["split"]))
    return outcome(
        status="violation" if viols else "ok",
        violations=viols,
        states=cnt,
        transitions=cnt,
        traces=cnt,
        digest=digest(dig, sname, str(cfg)),
        counters={"capped_table_sets": 1 if case["capped"] else 0},
    )
