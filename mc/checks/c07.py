"""C07 - the parameter template is complete and parameters are routed by function name.

Template clause (E2-style enumeration of programs): ALL assignments of parameter-name sets
over {a, b} to five functions (1024) and ALL ordered dependency lists of a stochastic
transition drawn from {h, d, s, g, _period} with <= 3 entries (86) x T in {1,2,3}; the
template returned by the real code is compared with the documented contract.
Routing clause (E1): for every model of the routing family every leaf of the template is
perturbed ALONE (all other leaves at pairwise distinct base values), every row of every
shock array is perturbed alone, beta in {0, 0.5, 0.95, 1, 1.04, 1.25}; lcm's solution must equal the
reference (which routes by function name by construction) under every valuation.
"""
from __future__ import annotations

import itertools

import numpy as np

from mc import e1, family, refmodel
from mc.checks import c01
from mc.explore import digest, outcome, violation

ID = "C07"
ENGINE = "E1"
RULE = (
    "template: one case per block of 64 parameter-name assignments / per dependency list; each model's template is one oracle "
    "evaluation (key set, names per function, shock shapes). routing: one case per model of {Family_1(B0) members with "
    "parameters} + 4 collision bases; inside: every single-leaf perturbation, every single-row shock perturbation, beta sweep; "
    "each (valuation, period, grid state) is an oracle evaluation; distinct by digest of templates / value arrays"
)
ASSUMPTIONS = ["template contract: mc/refmodel.template_contract; routing reference: mc/refmodel.Ref.ev (params[function_name][arg])", "1e-9 relative"]
BUDGET_S = {"quick": 1500, "thorough": 5400}
PSETS = [(), ("a",), ("b",), ("a", "b")]
TFUNCS = ["utility", "inc", "c_constraint", "next_s", "next_w"]


def BOUND(tier):
    return {"param_name_sets": "all 4^5 assignments of subsets of {a,b} to (utility, auxiliary, constraint, discrete next, continuous next)", "dependency_lists": "all ordered subsets of {h,d,s,g,_period} with <= 3 entries", "T": [1, 2, 3], "betas": [0, 0.5, 0.95, 1, 1.04, 1.25]}


def dep_lists():
    pool = ["h", "d", "s", "g", "_period"]
    out = []
    for k in range(1, 4):
        out += [list(p) for p in itertools.permutations(pool, k)]
    return out


ROUTING_BASES = {
    "collide-all": {"pnames": "collide", "trans": "param", "cons": "param", "aux": "chain"},
    "collide-stoch-hg": {"pnames": "collide", "trans": "param", "cons": "param", "h": "hg"},
    "distinct-all": {"trans": "param", "cons": "param", "aux": "chain", "h": "ph"},
    "collide-two-stoch": {"pnames": "collide", "trans": "param", "h": "two"},
    "beta-named-params": {"pnames": "beta", "trans": "param", "cons": "param", "aux": "chain"},
}


def cases(tier, seed):
    out = []
    assigns = list(itertools.product(range(4), repeat=5))
    for b in range(0, len(assigns), 64):
        out.append({"id": f"template-params-{b}", "kind": "tparams", "assign": assigns[b : b + 64]})
    for dl in dep_lists():
        out.append({"id": "template-deps-" + ",".join(dl), "kind": "tdeps", "deps": dl})
    for name, dev in ROUTING_BASES.items():
        fv = dict(family.BASE)
        fv.update(dev)
        out.append({"id": "routing-" + name, "kind": "routing", "fv": fv, "seed": seed, "sim": True})
    for fv, dev in e1.family_members(1 if tier == "quick" else 2)[0]:
        out.append({"id": "routing-" + e1.fv_id(fv), "kind": "routing", "fv": fv, "seed": seed, "sim": False})
    # period-dependent stochastic transitions with _period NOT first and more periods than labels of the first dependency
    for extra in ({"h": "hp", "T": 4}, {"h": "dph", "T": 4}, {"h": "hp", "T": 6}):
        fv = family.normalise(dict(family.BASE, **extra))
        out.append({"id": "routing-" + e1.fv_id(fv), "kind": "routing", "fv": fv, "seed": seed, "sim": False})
    # one Python callable registered under several function names (each name has its own parameter values)
    out.append({"id": "routing-shared-callable", "kind": "routing", "fv": dict(family.BASE), "seed": seed, "sim": True, "shared_callable": True})
    # a KEYWORD-ONLY parameter with a Python default: it is a parameter like any other (template + routing)
    out.append({"id": "routing-keyword-only-parameter", "kind": "routing", "fv": dict(family.BASE), "seed": seed, "sim": True, "shared_callable": True, "kwonly": True})
    # a constraint whose argument is the output of a transition function (next_w): a model function, never a parameter
    out.append({"id": "routing-transition-output-as-argument", "kind": "routing", "fv": dict(family.BASE), "seed": seed, "sim": True, "shared_callable": True, "nextarg": True})
    seen, uniq = set(), []
    for c in out:  # explicit members may also be members of Family_2 in the thorough tier
        if c["id"] not in seen:
            seen.add(c["id"])
            uniq.append(c)
    return uniq


def cost(case):
    return {"tparams": 30, "tdeps": 2, "routing": 20}[case["kind"]]


def case_rank(case):
    return {"tparams": 0, "tdeps": 1, "routing": 2}[case["kind"]]


def _template_model(psets, deps, T):
    """Model source with the given parameter-name sets per function and dependency list."""
    def sig(base, fname):
        return ", ".join(list(base) + list(psets.get(fname, ())))

    def use(fname):
        return "".join(f" + 0.01 * {p}" for p in psets.get(fname, ()))

    L = [
        f"def utility({sig(['s', 'h', 'g', 'w', 'd', 'c', 'inc'], 'utility')}):\n    return jnp.log(c) + 0.1 * s + 0.2 * h * d + 0.05 * g + 0.01 * w + 0.02 * inc{use('utility')}",
        f"def inc({sig(['d'], 'inc')}):\n    return 1.5 * d{use('inc')}",
        f"def c_constraint({sig(['c', 'w'], 'c_constraint')}):\n    return c <= w + 0.2371{use('c_constraint')}",
        f"def next_s({sig(['s', 'd'], 'next_s')}):\n    return jnp.clip(s + d, 0, 2)",
        f"def next_w({sig(['w', 'c'], 'next_w')}):\n    return w - c + 1.0{use('next_w')}",
        "def next_g(g):\n    return g",
        f"@lcm.mark.stochastic\ndef next_h({', '.join(deps)}):\n    pass",
        "def sd_filter(s, d):\n    return jnp.logical_or(d == 0, s < 2)",
    ]
    funcs = ["utility", "inc", "c_constraint", "next_s", "next_w", "next_g", "next_h", "sd_filter"]
    text = family.PRELUDE + "\n\n".join(L) + "\n\nMODEL = Model(n_periods=%d,\n    functions={%s},\n    choices={'d': D(2), 'c': Lin(0.5, 3.0, 4)},\n    states={'s': D(3), 'w': Lin(1, 5, 5), 'h': D(2), 'g': D(4)})\n" % (T, ", ".join(f'"{f}": {f}' for f in funcs))
    ns = {}
    exec(text, ns)
    return ns["MODEL"], text


def _check_template(model, tpl, label, viols):
    want = refmodel.template_contract(model)
    problems = []
    if set(tpl) != set(want):
        problems.append(f"keys {sorted(tpl)} expected {sorted(want)}")
    else:
        for k, v in want.items():
            if k == "beta":
                continue
            if k == "shocks":
                if set(tpl["shocks"]) != set(v):
                    problems.append(f"shocks keys {sorted(tpl['shocks'])} expected {sorted(v)}")
                else:
                    for s, shp in v.items():
                        if tuple(np.shape(tpl["shocks"][s])) != tuple(shp):
                            problems.append(f"shock array of {s}: shape {tuple(np.shape(tpl['shocks'][s]))} expected {tuple(shp)}")
            elif not isinstance(tpl[k], dict) or sorted(tpl[k]) != v:
                problems.append(f"parameters of {k}: {sorted(tpl[k]) if isinstance(tpl[k], dict) else tpl[k]!r} expected {v}")
    if problems and not viols:
        viols.append(violation("template", "create", "TEMPLATE", f"{label}: " + "; ".join(problems[:3])))


def _run_template(case):
    from lcm.entry_point import get_lcm_function
    from lcm.input_processing import process_model

    viols, cnt, dig = [], 0, []
    if case["kind"] == "tparams":
        todo = [({f: PSETS[i] for f, i in zip(TFUNCS, a)}, ["h", "d"], 2) for a in case["assign"]]
    else:
        todo = [({"utility": ("a",), "inc": ("a",), "next_w": ("b",)}, case["deps"], T) for T in (1, 2, 3)]
    for j, (psets, deps, T) in enumerate(todo):
        label = f"parameter names {psets}, next_h({', '.join(deps)}), T={T}"
        try:
            model, _ = _template_model(psets, deps, T)
            if j % 16 == 0 or case["kind"] == "tdeps":
                tpl = get_lcm_function(model, targets="solve", debug_mode=False)[1]
            else:
                tpl = process_model(model).params
        except Exception as e:
            if not viols:
                viols.append(violation("template", "create", "EXC:" + type(e).__name__, f"{label}: {str(e)[:300]}"))
            continue
        cnt += 1
        dig.append([sorted((k, sorted(v) if isinstance(v, dict) and k != "shocks" else None) for k, v in tpl.items())] + [list(np.shape(x)) for x in tpl.get("shocks", {}).values()])
        _check_template(model, tpl, label, viols)
    return outcome(status="violation" if viols else "ok", violations=viols, states=cnt, transitions=cnt, traces=cnt, digest=digest(str(dig)))


def _run_routing(case):
    import jax.numpy as jnp
    from lcm.entry_point import get_lcm_function

    b = e1.Built(case["fv"], case["seed"])
    if not b.valid:
        return outcome(status="skipped", skip_reason="invalid-combo", nontrivial=False)
    if case.get("shared_callable"):
        b = _shared_callable_model(case["seed"], kwonly=bool(case.get("kwonly")), nextarg=bool(case.get("nextarg")))
    base = b.params("perturbed", 0.9)  # pairwise distinct leaves
    leaves = [(f, p) for f in b.P for p in b.P[f]]
    viols, states, traces, dig = [], 0, 0, []
    try:
        solve, tpl = get_lcm_function(b.model, targets="solve", debug_mode=False)
    except Exception as e:
        return outcome(status="violation", violations=[violation("runs", "create", "EXC:" + type(e).__name__, str(e)[:300])], digest="exc")
    _check_template(b.model, tpl, "family model", viols)
    if not leaves and not b.shocks:
        pass
    valuations = [("base", base)]
    for f, p in leaves:
        v = {k: (dict(x) if isinstance(x, dict) else x) for k, x in base.items()}
        v[f] = dict(v[f])
        v[f][p] = v[f][p] * 1.31 + 0.057
        valuations.append((f"leaf {f}.{p}", v))
    for s, shp in (b.shocks or {}).items():
        arr = np.asarray(base["shocks"][s])
        rows = list(itertools.product(*[range(k) for k in shp[:-1]]))
        for row in rows:
            a2 = arr.copy()
            r_ = a2[row].copy()
            r_[0], r_[-1] = 0.8 * r_[0], r_[-1] + 0.2 * r_[0]
            a2[row] = r_
            v = dict(base)
            v["shocks"] = dict(base["shocks"])
            v["shocks"][s] = jnp.asarray(a2)
            valuations.append((f"shock row {s}{list(row)}", v))
    for beta in (0.0, 0.5, 0.95, 1.0, 1.04, 1.25):  # lcm places no restriction on beta
        v = dict(base)
        v["beta"] = beta
        valuations.append((f"beta={beta}", v))
    n_unsup = 0
    for name, params in valuations:
        r, R, why = e1.reference(b.model, params)
        if why:
            n_unsup += 1
            continue
        try:
            V = [np.asarray(x) for x in solve(params)]
        except Exception as e:
            viols.append(violation("runs", "solve", "EXC:" + type(e).__name__, f"{name}: {str(e)[:300]}"))
            break
        traces += 1
        dig.append(V)
        vv = []
        states += c01.compare(r, V, R, name, True, vv, stage="solve")
        for x in vv:
            x["oracle"] = "routing-" + x["oracle"]
            x["message"] = f"valuation [{name}]: " + x["message"]
        viols += vv
        if viols:
            break
    if case.get("sim") and not viols:
        r, R, why = e1.reference(b.model, base)
        if not why:
            init, _ = e1.initial_states(r, R[0], offgrid=True)
            V = solve(base)
            fr = e1.lcm_simulate(b.model, base, init, V=[np.asarray(v) for v in V])
            Vfull = [r.from_lcm_layout(np.asarray(v), t) for t, v in enumerate(V)]
            probs, chk, _ = e1.check_rows(r, fr, Vfull)
            states += chk
            traces += 1
            for p in probs[:2]:
                viols.append(violation("routing-row-" + p[2], "simulate", "ROW", f"period {p[0]} agent {p[1]}: {p[3]}"))
    if not traces and not viols:
        return outcome(status="skipped", skip_reason="unsupported", nontrivial=False)
    return outcome(status="violation" if viols else "ok", violations=viols[:3], states=states, transitions=traces * b.fv["T"], traces=traces, digest=digest(dig), nontrivial=len(valuations) > 5, counters={"valuations": len(valuations), "unsupported_valuations": n_unsup})


class _Shared:
    """B0-like model in which ONE callable is registered as `inc`, `bonus` and `next_g`-helper `drift`."""

    valid = True

    def __init__(self, seed, kwonly=False, nextarg=False):
        self.seed = seed
        usig = "s, w, d, c, inc, bonus, *, a=0.25" if kwonly else "s, w, d, c, inc, bonus, a"
        src = (
            "def scaled(d, factor):\n    return d * factor + 0.1 * factor\n\n"
            f"def utility({usig}):\n    return jnp.log(c) + a * 0.31 * d * (s + 1) + 0.0137 * w * (1 + 0.5 * s) + 0.05 * inc - 0.02 * bonus * s\n\n"
            "def c_constraint(c, w):\n    return c <= w + 0.2371\n\n"
            "def sd_filter(s, d):\n    return jnp.logical_or(d == 0, s < 2)\n\n"
            "def next_s(s, d):\n    return jnp.clip(s + d, 0, 2)\n\n"
            "def next_w(w, c, d, drift, factor):\n    return (w - c) + 1.0 + 0.25 * d + 0.1 * drift + 0.01 * factor\n"
        )
        if nextarg:  # a constraint that takes the OUTPUT of a transition function (a model function, not a parameter)
            src += "\ndef floor_constraint(next_w, factor, floor):\n    return next_w >= 0.5 * floor + 0.55 + 0.01 * factor\n"
        self.text = family.PRELUDE + src + (
            "\n\nMODEL = Model(n_periods=3,\n    functions={'utility': utility, 'inc': scaled, 'bonus': scaled, 'drift': scaled, "
            "'c_constraint': c_constraint, 'sd_filter': sd_filter, 'next_s': next_s, 'next_w': next_w"
            + (", 'floor_constraint': floor_constraint" if nextarg else "") + "},\n"
            "    choices={'d': D(2), 'c': Lin(0.5, 3.0, 6)},\n    states={'s': D(3), 'w': Lin(1, 5, 5)})\n"
        )
        self.model = family.exec_model(self.text)
        self.P = {"utility": {"a": 1.3}, "inc": {"factor": 1.9}, "bonus": {"factor": 0.7}, "drift": {"factor": -0.4}, "c_constraint": {}, "sd_filter": {}, "next_s": {}, "next_w": {"factor": 2.5}}
        if nextarg:
            self.P["floor_constraint"] = {"factor": 3.1, "floor": 0.68}
        self.shocks = {}
        self.fv = dict(family.BASE)

    def params(self, variant="default", beta=0.9):
        return e1.gen_params(self.P, self.shocks, self.seed, variant, beta)


def _shared_callable_model(seed, kwonly=False, nextarg=False):
    return _Shared(seed, kwonly, nextarg)


def run_case(case):
    if case["kind"] == "routing":
        return _run_routing(case)
    return _run_template(case)
