"""C18 - maximisers returned by the arg-max primitives attain the maximum.

Engine E2: all arrays over a small alphabet x all masks x all axis subsets (jit+vmap and
eager), all contiguous segmentations for the segment arg-max, all variable-layout
combinations for the discrete-problem reducers, and the fused-input clause (arg-max taken
inside the same jit as the computation producing its input; real pipeline models +
synthetic expressions over SIMD-remainder vector lengths).
"""
from __future__ import annotations

import itertools

import numpy as np

from mc.explore import digest, outcome, violation

ID = "C18"
ENGINE = "E2"
RULE = (
    "blocks: (shape, axis subset) x ALL arrays over {0,1,2} x ALL masks for argmax (jit(vmap) and eager), float "
    "arrays over {-inf,0,1.5}; (n rows, trailing shape, segmentation) x ALL arrays over {0,1,2} for segment_argmax; "
    "all variable layouts (restricted/unrestricted x state/choice) for the reducers; fused clause: 8 expressions x 15 "
    "vector lengths + every Family_1 model through the jitted simulation. A block is non-trivial if it evaluated "
    ">= 1 case; distinct by digest of all returned positions"
)
ASSUMPTIONS = [
    "numpy integer/float comparison semantics as reference",
    "XLA fusion decisions cannot be enumerated: the fused-input clause is explored over an expression/length alphabet and the generated model family only",
]
DETERMINISM_PROBE = True
BUDGET_S = {"quick": 1200, "thorough": 5400}


def BOUND(tier):
    return {
        "argmax_shapes": _argmax_shapes(tier),
        "segment_rows": 5 if tier == "quick" else 6,
        "alphabet": [0, 1, 2],
    }


def _argmax_shapes(tier):
    s = [(1,), (2,), (3,), (4,), (5,), (6,), (2, 3), (3, 2), (2, 2)]
    if tier == "thorough":
        s += [(7,), (2, 2, 2)]
    return [list(x) for x in s]


def cases(tier, seed):
    out = []
    for shape in _argmax_shapes(tier):
        nd = len(shape)
        for r in range(1, nd + 1):
            for axes in itertools.combinations(range(nd), r):
                out.append({"id": f"argmax-int-{shape}-axes{list(axes)}", "kind": "argmax", "shape": shape, "axes": list(axes), "alpha": "int"})
        out.append({"id": f"argmax-int-{shape}-axisNone", "kind": "argmax", "shape": shape, "axes": None, "alpha": "int"})
        # axis tuples in NON-ascending order (the flat position is relative to the order given)
        for r in range(2, nd + 1):
            for axes in itertools.permutations(range(nd), r):
                if list(axes) != sorted(axes):
                    out.append({"id": f"argmax-int-{shape}-axes{list(axes)}", "kind": "argmax", "shape": shape, "axes": list(axes), "alpha": "int"})
    for shape in [[1], [2], [3], [4], [2, 2]]:
        nd = len(shape)
        for r in range(1, nd + 1):
            for axes in itertools.combinations(range(nd), r):
                out.append({"id": f"argmax-float-{shape}-axes{list(axes)}", "kind": "argmax", "shape": shape, "axes": list(axes), "alpha": "float"})
    # (2,2,2) over {0,1} in quick
    if tier == "quick":
        for r in range(1, 4):
            for axes in itertools.combinations(range(3), r):
                out.append({"id": f"argmax-bin-[2, 2, 2]-axes{list(axes)}", "kind": "argmax", "shape": [2, 2, 2], "axes": list(axes), "alpha": "bin"})
    for shape in [[1], [2], [3], [2, 2]]:
        out.append({"id": f"argmax-eager-{shape}", "kind": "argmax_eager", "shape": shape})
    nmax = 5 if tier == "quick" else 6
    for n in range(1, nmax + 1):
        out.append({"id": f"segargmax-n{n}-trail[]", "kind": "segargmax", "n": n, "trail": []})
    for n in range(1, 4 if tier == "quick" else 5):
        out.append({"id": f"segargmax-n{n}-trail[2]", "kind": "segargmax", "n": n, "trail": [2]})
    out.append({"id": "segargmax-n2-trail[2, 2]", "kind": "segargmax", "n": 2, "trail": [2, 2]})
    # float data incl. -inf (segments whose rows are all -inf must still return one of their own rows)
    for n in range(1, 5):
        out.append({"id": f"segargmax-float-n{n}-trail[]", "kind": "segargmax", "n": n, "trail": [], "alpha": "float"})
    out.append({"id": "segargmax-float-n3-trail[2]", "kind": "segargmax", "n": 3, "trail": [2], "alpha": "float"})
    for n in range(2, 5):
        out.append({"id": f"segargmax-nearties-n{n}-trail[]", "kind": "segargmax", "n": n, "trail": [], "alpha": "near"})
    # segment ids that are NOT sorted / not contiguous (every surjective assignment of rows to segments)
    for n in range(2, 5):
        out.append({"id": f"segargmax-unsorted-ids-n{n}", "kind": "segargmax", "n": n, "trail": [], "unsorted": True})
    for shape in [[2], [3], [4], [2, 2]]:
        nd = len(shape)
        for r in range(1, nd + 1):
            for axes in itertools.combinations(range(nd), r):
                out.append({"id": f"argmax-nearties-{shape}-axes{list(axes)}", "kind": "argmax", "shape": shape, "axes": list(axes), "alpha": "near"})
    for n in range(1, nmax + 1):
        out.append({"id": f"reducer-segments-n{n}", "kind": "reducer_seg", "n": n})
    for layout in _reducer_layouts():
        out.append({"id": "reducer-" + "".join(f"{k}{v}" for k, v in layout.items()), "kind": "reducer", "layout": layout, "seed": seed})
    for e in range(len(EXPRS)):
        out.append({"id": f"fused-expr{e}", "kind": "fused", "expr": e, "seed": seed})
    from mc import family, e1

    for fv in family.enumerate_family(1 if tier == "quick" else 2):
        if fv["cc"] == "none":
            continue
        out.append({"id": "pipeline-" + e1.fv_id(fv), "kind": "pipeline", "fv": fv, "seed": seed})
    return out


def cost(case):
    return {"pipeline": 5, "reducer": 3, "segargmax": 4, "argmax": 2}.get(case["kind"], 1)


def case_rank(case):
    return {"argmax_eager": 0, "argmax": 1, "segargmax": 2, "reducer": 3, "reducer_seg": 3, "fused": 4, "pipeline": 5}[case["kind"]]


# --------------------------------------------------------------------------------------
def _all_arrays(shape, alphabet):
    n = int(np.prod(shape))
    g = np.array(list(itertools.product(alphabet, repeat=n)))
    return g.reshape((-1, *shape))


def _ref_argmax(A, M, axes, initial):
    """A, M: (N, *shape).  axes: tuple of axes (w.r.t. the case shape).  Returns pos, max."""
    nd = A.ndim - 1
    front = [i for i in range(nd) if i not in axes]
    perm = [0] + [1 + i for i in front] + [1 + i for i in axes]
    A2 = np.transpose(A, perm)
    M2 = np.transpose(M, perm)
    k = len(axes)
    A2 = A2.reshape(A2.shape[: A2.ndim - k] + (-1,))
    M2 = M2.reshape(A2.shape)
    lowest = -np.inf if A.dtype.kind == "f" else -(10**9)
    best = np.where(M2, A2, lowest).max(-1)
    # first unmasked position attaining the masked maximum; 0 if everything is masked
    hit = M2 & (A2 == best[..., None])
    pos = np.where(hit.any(-1), hit.argmax(-1), 0)
    mx = np.where(M2.any(-1), best, initial)
    return pos, mx


def _run_argmax(case):
    import jax
    import jax.numpy as jnp
    from lcm.argmax import argmax

    shape = tuple(case["shape"])
    alpha = {"int": [0, 1, 2], "bin": [0, 1], "float": [-np.inf, 0.0, 1.5], "near": [1.0, 1.0 + 2e-7, 0.5]}[case["alpha"]]
    A = _all_arrays(shape, alpha)
    A = A.astype(np.float64) if case["alpha"] in ("float", "near") else A.astype(np.int64)
    Ms = _all_arrays(shape, [False, True]).astype(bool)
    axes = tuple(range(len(shape))) if case["axes"] is None else tuple(case["axes"])
    initial = -np.inf if case["alpha"] in ("float", "near") else -1
    viols = []
    n = 0
    f_m = jax.jit(jax.vmap(lambda a, m: argmax(a, axis=case["axes"] if case["axes"] is None else tuple(case["axes"]), where=m, initial=initial)))
    f_n = jax.jit(jax.vmap(lambda a: argmax(a, axis=case["axes"] if case["axes"] is None else tuple(case["axes"]))))
    dig = []
    # no mask
    pos, mx = f_n(jnp.asarray(A))
    rp, rm = _ref_argmax(A, np.ones_like(A, bool), axes, initial)
    pos, mx = np.asarray(pos), np.asarray(mx)
    n += A.shape[0]
    dig.append(pos)
    bad = (pos != rp) | ~((mx == rm) | (np.isnan(mx) & np.isnan(rm)))
    if bad.any():
        i = int(np.argwhere(bad)[0][0])
        viols.append(violation("argmax-nomask", "jit", "VALUE", f"a={A[i].tolist()} axes={axes}: got pos {pos[i].tolist()} max {mx[i].tolist()}, expected pos {rp[i].tolist()} max {rm[i].tolist()}"))
    # all masks
    chunk = max(1, 2_000_000 // max(1, A.shape[0] * int(np.prod(shape))))
    for s in range(0, len(Ms), chunk):
        Mc = Ms[s : s + chunk]
        AA = np.repeat(A[None], len(Mc), 0).reshape((-1, *shape))
        MM = np.repeat(Mc[:, None], len(A), 1).reshape((-1, *shape))
        pos, mx = f_m(jnp.asarray(AA), jnp.asarray(MM))
        pos, mx = np.asarray(pos), np.asarray(mx)
        rp, rm = _ref_argmax(AA, MM, axes, initial)
        n += AA.shape[0]
        dig.append(pos)
        bad = (pos != rp) | (mx != rm)
        if bad.any() and not viols:
            i = int(np.argwhere(bad)[0][0])
            viols.append(violation("argmax-masked", "jit", "VALUE", f"a={AA[i].tolist()} where={MM[i].tolist()} axes={axes} initial={initial}: got pos {pos[i].tolist()} max {mx[i].tolist()}, expected pos {rp[i].tolist()} max {rm[i].tolist()}"))
    return outcome(status="violation" if viols else "ok", violations=viols, states=n, transitions=n, traces=n, digest=digest(dig))


def _run_argmax_eager(case):
    import jax.numpy as jnp
    from lcm.argmax import argmax

    shape = tuple(case["shape"])
    A = _all_arrays(shape, [0, 1, 2]).astype(np.int64)
    Ms = _all_arrays(shape, [False, True]).astype(bool)
    nd = len(shape)
    viols = []
    n = 0
    dig = []
    axsets = [None] + [ax for r in range(1, nd + 1) for ax in itertools.combinations(range(nd), r)]
    for a in A:
        for m in Ms:
            for ax in axsets:
                axes = tuple(range(nd)) if ax is None else ax
                pos, mx = argmax(jnp.asarray(a), axis=ax if ax is None or len(ax) > 1 else ax[0], where=jnp.asarray(m), initial=-1)
                rp, rm = _ref_argmax(a[None], m[None], axes, -1)
                n += 1
                dig.append(np.asarray(pos))
                if not (np.array_equal(np.asarray(pos), rp[0]) and np.array_equal(np.asarray(mx), rm[0])) and not viols:
                    viols.append(violation("argmax-masked", "eager", "VALUE", f"a={a.tolist()} where={m.tolist()} axis={ax}: got {np.asarray(pos).tolist()},{np.asarray(mx).tolist()} expected {rp[0].tolist()},{rm[0].tolist()}"))
    return outcome(status="violation" if viols else "ok", violations=viols, states=n, transitions=n, traces=n, digest=digest(dig))


def _run_segargmax(case):
    import jax
    import jax.numpy as jnp
    from lcm.argmax import segment_argmax

    n = case["n"]
    trail = tuple(case["trail"])
    if case.get("alpha") == "near":
        # near ties: a row within 2e-7 of the maximum does NOT attain it
        A = _all_arrays((n, *trail), [1.0, 1.0 + 2e-7, 0.5]).astype(np.float64)
    elif case.get("alpha") == "float":
        A = _all_arrays((n, *trail), [-np.inf, 0.0, 1.5]).astype(np.float64)
    else:
        A = _all_arrays((n, *trail), [0, 1, 2]).astype(np.int64)
    viols = []
    cnt = 0
    dig = []
    if case.get("unsorted"):
        id_vectors = [np.array(v, dtype=np.int32) for kk in range(1, n + 1) for v in itertools.product(range(kk), repeat=n) if len(set(v)) == kk]
    else:
        id_vectors = [np.concatenate([[0], np.cumsum(cuts)]).astype(np.int32) for cuts in itertools.product([0, 1], repeat=n - 1)]
    for ids in id_vectors:
        k = int(ids.max()) + 1
        for mode in ("jit", "eager1"):
            if mode == "jit":
                f = jax.jit(jax.vmap(lambda a: segment_argmax(a, segment_ids=jnp.asarray(ids), num_segments=k)))
                arg, mx = f(jnp.asarray(A))
                AA = A
            else:
                # one eager call per segmentation on an array with all-distinct pattern
                AA = A[len(A) // 3 : len(A) // 3 + 1]
                arg, mx = segment_argmax(jnp.asarray(AA[0]), segment_ids=jnp.asarray(ids), num_segments=k)
                arg, mx = arg[None], mx[None]
            arg, mx = np.asarray(arg), np.asarray(mx)
            dig.append(arg)
            # reference, segment by segment
            for s in range(k):
                rows = np.where(ids == s)[0]
                seg = AA[:, rows]  # (N, len, *trail)
                rmax = seg.max(axis=1)
                cnt += AA.shape[0]
                got = arg[:, s]
                in_seg = np.isin(got, rows)
                val_at = np.take_along_axis(AA, got[:, None].clip(0, n - 1), axis=1)[:, 0]
                bad = ~in_seg | (val_at != rmax) | (mx[:, s] != rmax)
                if bad.any() and not viols:
                    i = int(np.argwhere(bad)[0][0])
                    viols.append(violation("segment-argmax", mode, "VALUE", f"data={AA[i].tolist()} segment_ids={ids.tolist()} segment {s}: got rows {arg[i, s].tolist()} max {mx[i, s].tolist()}, segment max {rmax[i].tolist()}"))
    return outcome(status="violation" if viols else "ok", violations=viols, states=cnt, transitions=cnt, traces=cnt, digest=digest(dig))


# ---------------------------------------------------------------------------- reducers
def _reducer_layouts():
    out = []
    for rs, rc, ds, dch, cs in itertools.product([0, 1, 2], [0, 1, 2], [0, 1], [0, 1, 2], [0, 1]):
        if (rs == 0) != (rc == 0):  # a filter needs a state and (to be interesting) a choice
            if not (rs >= 1 and rc == 0):
                continue
        if rs + ds + cs == 0:
            continue
        if rs + rc + ds + dch + cs > 5:
            continue
        out.append({"rs": rs, "rc": rc, "ds": ds, "dc": dch, "cs": cs})
    return out


def _build_layout_model(layout):
    """A real lcm Model with the requested numbers of restricted/unrestricted variables."""
    from dataclasses import make_dataclass

    import jax.numpy as jnp
    from lcm import DiscreteGrid, LinspaceGrid, Model

    def D(n):
        return DiscreteGrid(make_dataclass(f"C{n}", [(f"c{i}", int, i) for i in range(n)]))

    sizes = iter([2, 3, 2, 3, 2, 3, 2, 3])
    states, choices = {}, {}
    rs = [f"rs{i}" for i in range(layout["rs"])]
    rc = [f"rc{i}" for i in range(layout["rc"])]
    ds = [f"ds{i}" for i in range(layout["ds"])]
    dc = [f"dc{i}" for i in range(layout["dc"])]
    cs = [f"cs{i}" for i in range(layout["cs"])]
    # declaration order interleaves kinds on purpose
    for v in ds:
        states[v] = D(next(sizes))
    for v in cs:
        states[v] = LinspaceGrid(start=1, stop=2, n_points=4)
    for v in rs:
        states[v] = D(next(sizes))
    for v in dc:
        choices[v] = D(next(sizes))
    for v in rc:
        choices[v] = D(next(sizes))
    allv = rs + rc + ds + dc + cs
    src = "def utility(" + ", ".join(allv) + "):\n    return " + " + ".join(f"{1.0 + 0.37 * i} * {v}" for i, v in enumerate(allv)) + "\n"
    filt_vars = rs + rc
    if filt_vars:
        src += "def r_filter(" + ", ".join(filt_vars) + "):\n    return (" + " + ".join(filt_vars) + ") % 3 != 1\n"
    ns = {"jnp": jnp}
    exec(src, ns)
    functions = {"utility": ns["utility"]}
    if filt_vars:
        functions["r_filter"] = ns["r_filter"]
    for s in states:
        exec(f"def next_{s}({s}):\n    return {s}\n", ns)
        functions[f"next_{s}"] = ns[f"next_{s}"]
    return Model(n_periods=2, functions=functions, choices=choices, states=states), rs, rc, ds, dc, cs


def _run_reducer(case):
    import jax.numpy as jnp
    from lcm.discrete_problem import get_solve_discrete_problem
    from lcm.input_processing import process_model
    from lcm.state_space import create_state_choice_space
    from lcm.typing import ShockType

    model, rs, rc, ds, dc, cs = _build_layout_model(case["layout"])
    mod = process_model(model)
    viols = []
    n = 0
    dig = []
    for last in (False, True):
        space, info, indexers, segments = create_state_choice_space(model=mod, period=0, is_last_period=last, jit_filter=False)
        red = get_solve_discrete_problem(random_utility_shock_type=ShockType.NONE, variable_info=mod.variable_info, is_last_period=last, choice_segments=segments)
        dense_names = list(space.dense_vars)
        dshape = tuple(len(space.dense_vars[v]) for v in dense_names)
        nsparse = len(next(iter(space.sparse_vars.values()))) if space.sparse_vars else None
        shape = ((nsparse,) if nsparse is not None else ()) + dshape
        rng = np.random.default_rng(7 + case["seed"])
        arrays = [rng.permutation(int(np.prod(shape))).reshape(shape).astype(np.float64), rng.integers(0, 3, size=shape).astype(np.float64)]
        for cc in arrays:
            got = np.asarray(red(jnp.asarray(cc), params={}))
            dig.append(got)
            # reference: group rows of the sparse axis by their restricted-STATE combination
            choice_axes_dense = [i for i, v in enumerate(dense_names) if v in dc]
            state_axes_dense = [i for i, v in enumerate(dense_names) if v not in dc]
            if nsparse is not None:
                keys = list(zip(*[np.asarray(space.sparse_vars[v]).tolist() for v in rs])) if rs else [()] * nsparse
                uniq = []
                for kx in keys:
                    if kx not in uniq:
                        uniq.append(kx)
                exp_shape = (len(uniq),) + tuple(dshape[i] for i in state_axes_dense)
                exp = np.full(exp_shape, -np.inf)
                for row, kx in enumerate(keys):
                    sub = cc[row]
                    red_sub = sub.max(axis=tuple(choice_axes_dense)) if choice_axes_dense else sub
                    exp[uniq.index(kx)] = np.maximum(exp[uniq.index(kx)], red_sub)
            else:
                exp = cc.max(axis=tuple(choice_axes_dense)) if choice_axes_dense else cc
            n += exp.size
            if got.shape != exp.shape or not np.array_equal(got, exp):
                if not viols:
                    viols.append(violation("reducer", "last" if last else "nonlast", "VALUE", f"layout {case['layout']}: reduced values differ from nested-loop maximum (shape {got.shape} vs {exp.shape})"))
    return outcome(status="violation" if viols else "ok", violations=viols, states=n, transitions=4, traces=4, digest=digest(dig))


def _run_reducer_seg(case):
    """Segment-maximum reduction on ALL contiguous segmentations (synthetic segments, real reducer)."""
    import jax
    import jax.numpy as jnp
    from lcm.discrete_problem import _solve_discrete_problem_no_shocks as red

    n = case["n"]
    viols, cnt, dig = [], 0, []
    for trail, axes in (((), None), ((2,), (1,)), ((2,), None)):
        A = _all_arrays((n, *trail), [0, 1, 2]).astype(np.float64)
        for cuts in itertools.product([0, 1], repeat=n - 1):
            ids = np.concatenate([[0], np.cumsum(cuts)]).astype(np.int32)
            k = int(ids[-1]) + 1
            seg = {"segment_ids": jnp.asarray(ids), "num_segments": k}
            f = jax.jit(jax.vmap(lambda v: red(v, choice_axes=axes, choice_segments=seg, params={})))
            got = np.asarray(f(jnp.asarray(A)))
            dig.append(got)
            for s_ in range(k):
                rows = np.where(ids == s_)[0]
                sub = A[:, rows]
                exp = sub.max(axis=(1, 2)) if axes else sub.max(axis=1)
                cnt += len(A)
                bad = got[:, s_] != exp
                if np.any(bad) and not viols:
                    i = int(np.argwhere(bad.reshape(len(A), -1).any(axis=1))[0][0])
                    viols.append(violation("reducer-segments", "jit", "VALUE", f"values={A[i].tolist()} segment_ids={ids.tolist()} dense_choice_axes={axes}: state {s_} reduced to {got[i, s_].tolist()}, maximum over its choices is {exp[i].tolist()}"))
    return outcome(status="violation" if viols else "ok", violations=viols, states=cnt, transitions=cnt, traces=cnt, digest=digest(dig))


# ---------------------------------------------------------------------------- fused clause
EXPRS = [
    ("log(x)+0.3*y", lambda np_, x, y: np_.log(x) + 0.3 * y),
    ("sqrt(x)*y-x", lambda np_, x, y: np_.sqrt(x) * y - x),
    ("exp(-x)*y", lambda np_, x, y: np_.exp(-x) * y),
    ("x**0.37+log(y+1.1)", lambda np_, x, y: x ** 0.37 + np_.log(y + 1.1)),
    ("log(x)+0.95*((1-y)*x+y*x*x)", lambda np_, x, y: np_.log(x) + 0.95 * ((1 - y) * x + y * x * x)),
    ("(x**(1-1.7))/(1-1.7)+y", lambda np_, x, y: (x ** (1 - 1.7)) / (1 - 1.7) + y),
    ("log(x)-0.1*x*y+sin(x)", lambda np_, x, y: np_.log(x) - 0.1 * x * y + np_.sin(x)),
    ("tanh(x*y)+log1p(x)", lambda np_, x, y: np_.tanh(x * y) + np_.log1p(x)),
]
LENGTHS = [1, 2, 3, 4, 5, 7, 8, 9, 15, 16, 17, 31, 33, 64, 500]


def _run_fused(case):
    import jax
    import jax.numpy as jnp
    from lcm.argmax import argmax

    name, fn = EXPRS[case["expr"]]
    viols = []
    n = 0
    dig = []
    for L in LENGTHS:
        x = np.linspace(0.5, 3.0, L) if L > 1 else np.array([1.3])
        ys = np.linspace(0.1, 0.9, 7)
        thr = 1.7371

        @jax.jit
        def f(x, ys):
            def one(y):
                u = fn(jnp, x, y)
                return argmax(u, where=x <= thr + y, initial=-jnp.inf)
            return jax.vmap(one)(ys)

        pos, mx = f(jnp.asarray(x), jnp.asarray(ys))
        pos, mx = np.asarray(pos), np.asarray(mx)
        dig.append(pos)
        for j, y in enumerate(ys):
            u = fn(np, x, y)
            m = x <= thr + y
            n += 1
            best = np.where(m, u, -np.inf).max()
            p = int(pos[j])
            # numpy and XLA evaluate pow/log/exp with different rounding (several ulp); a wrong
            # position moves the value by >= 1e-6 for these expressions, so 1e-12 is safe both ways
            tol = 1e-12 * (1 + abs(best))
            ok = m.any() and m[p] and abs(u[p] - best) <= tol and abs(mx[j] - best) <= tol
            if not m.any():
                ok = p == 0 and mx[j] == -np.inf
            if not ok and not viols:
                viols.append(violation("fused-argmax", "jit", "VALUE", f"expr {name} length {L} y={y}: position {p} (u={u[p]!r}, unmasked={bool(m[p])}) max returned {mx[j]!r}; eager masked max {best!r} at {int(np.where(m, u, -np.inf).argmax())}"))
    return outcome(status="violation" if viols else "ok", violations=viols, states=n, transitions=len(LENGTHS), traces=len(LENGTHS), digest=digest(dig))


def _run_pipeline(case):
    """Fused clause on the real upstream computation: the jitted policy functions of a
    generated model, all grid states as agents; every reported decision must attain the
    maximum of the (eagerly evaluated) reference objective."""
    from mc.checks import c02

    out = c02.run_model(case["fv"], case["seed"], valuations=("default",), value_arrays=("own",), offgrid=False)
    for v in out["violations"]:
        v["oracle"] = "pipeline-" + v["oracle"]
    return out


def run_case(case):
    return {
        "argmax": _run_argmax,
        "argmax_eager": _run_argmax_eager,
        "segargmax": _run_segargmax,
        "reducer": _run_reducer,
        "reducer_seg": _run_reducer_seg,
        "fused": _run_fused,
        "pipeline": _run_pipeline,
    }[case["kind"]](case)
