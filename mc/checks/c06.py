"""C06 - solve and simulate agree with each other.

Engine E1/E3: agents on EVERY in-space grid state; (a) the simulated value of every row
whose state lies on the grid equals the entry of lcm's own solved array at that state
(located through the layout contract); (b) the frame of target 'solve_and_simulate' equals,
cell for cell, the frame of simulate(vf_arr_list=solve(params)) obtained from three separate
get_lcm_function calls.
"""
from __future__ import annotations

import numpy as np

from mc import e1, family
from mc.explore import digest, outcome, violation

ID = "C06"
ENGINE = "E1"
RULE = (
    "Family_1(B0) + Family_2 on the interaction-prone features + Family_1 of the fully discrete base (thorough: Family_2 of both); two parameter "
    "valuations; agents = every in-space grid state; every on-grid row of every period is an oracle evaluation "
    "(fully discrete models: all rows); distinct by digest of the frame"
)
ASSUMPTIONS = ["no reference values are involved: both sides come from lcm; only the layout contract (C05) locates the entry", "on-grid test: discrete exact, continuous |x-g| <= 1e-12*(1+|g|); value comparison 1e-12 relative (different batch shapes compile to different vector code)"]
BUDGET_S = {"quick": 1500, "thorough": 5400}
PRONE = ["filt", "e", "cc", "h", "cons", "wgrid", "T"]


def BOUND(tier):
    return {"family": "Family_1(B0) + Family_2|{filt,e,cc,h,cons} + Family_1(fully discrete base)" if tier == "quick" else "Family_2(B0) + Family_2(fully discrete base)", "valuations": ["default", "perturbed"]}


def cases(tier, seed):
    out, seen = [], set()
    disc = dict(family.BASE, wgrid="disc", cc="none")
    if tier == "quick":
        groups = [
            e1.family_members(1)[0],
            e1.family_members(2, {k: family.FEATURES[k] for k in ["filt", "e", "cc", "h", "cons"]})[0],
            e1.family_members(1, base=disc)[0],
        ]
    else:
        groups = [e1.family_members(2)[0], e1.family_members(2, base=disc)[0]]
    # one-period models with -inf values at grid states (no feasible choice / only -inf feasible choices)
    extra = [family.normalise(dict(family.BASE, T=1, **d)) for d in ({"cons": "tight"}, {"cons": "lower"}, {"cons": "tight", "e": 1}, {"cons": "lower", "filt": "none"})]
    groups.append([(fv, 3) for fv in extra])
    for members in groups:
        for fv, dev in members:
            i = e1.fv_id(fv)
            if i not in seen:
                seen.add(i)
                out.append({"id": i, "fv": fv, "dev": dev, "seed": seed})
    return out


def case_rank(case):
    return case["dev"]


def cost(case):
    fv = case["fv"]
    return fv["T"] * (2 if fv["k"] != "none" else 1) * (1.5 if fv["h"] != "none" else 1)


def run_case(case):
    import jax.numpy as jnp
    from lcm.entry_point import get_lcm_function

    b = e1.Built(case["fv"], case["seed"])
    if not b.valid:
        return outcome(status="skipped", skip_reason="invalid-combo", nontrivial=False)
    viols, cnt, traces, dig = [], 0, 0, []
    on_later = 0
    for vname in ("default", "perturbed"):
        params = b.params(vname, 0.9 if vname == "default" else 0.95)
        r, R, why = e1.reference(b.model, params)
        if why:
            return outcome(status="skipped", skip_reason=why, nontrivial=False)
        try:
            solve, _ = get_lcm_function(b.model, targets="solve", debug_mode=False)
            sim, _ = get_lcm_function(b.model, targets="simulate", debug_mode=False)
            sas, _ = get_lcm_function(b.model, targets="solve_and_simulate", debug_mode=False)
            V = solve(params)
            init, _ = e1.initial_states(r, R[0], offgrid=False)
            jinit = e1.to_jax(init)
            fr1 = sim(params, initial_states=jinit, vf_arr_list=V, seed=7)
            fr2 = sas(params, initial_states=jinit, seed=7)
        except Exception as e:
            viols.append(violation("runs", "simulate", "EXC:" + type(e).__name__, str(e)[:400], params=vname))
            break
        traces += 2
        dig.append(fr1.to_numpy())
        if not (list(fr1.columns) == list(fr2.columns) and fr1.index.equals(fr2.index) and np.array_equal(fr1.to_numpy(dtype=np.float64), fr2.to_numpy(dtype=np.float64))):
            diff = [c for c in fr1.columns if c not in fr2.columns or not np.array_equal(fr1[c].to_numpy(), fr2[c].to_numpy())]
            viols.append(violation("solve_and_simulate==simulate(solve)", "simulate", "FRAME", f"frames differ in columns {diff}", params=vname))
            break
        # second call on the SAME function objects after mutating the params dict in place
        if vname == "default":
            try:
                params["beta"] = 0.5
                V_b = solve(params)
                fr1b = sim(params, initial_states=jinit, vf_arr_list=V_b, seed=7)
                fr2b = sas(params, initial_states=jinit, seed=7)
                traces += 2
                if not np.array_equal(fr1b.to_numpy(dtype=np.float64), fr2b.to_numpy(dtype=np.float64)):
                    viols.append(violation("solve_and_simulate==simulate(solve)", "simulate", "FRAME", "second call after changing params['beta'] in place: frames differ", params=vname))
                    break
            finally:
                params["beta"] = 0.9
        try:
            Vfull = [r.from_lcm_layout(np.asarray(v), t) for t, v in enumerate(V)]
        except ValueError as e:
            viols.append(violation("layout", "solve", "SHAPE", str(e), params=vname))
            break
        n = len(next(iter(init.values())))
        frames = [("", fr1)]
        if vname == "default":
            # the same call with every additional target requested (auxiliary, constraint and transition functions):
            # the value column must still be the solved array's entry at the state reported in the same row
            from mc.checks import c13

            try:
                fr3 = sim(params, initial_states=jinit, vf_arr_list=V, seed=7, additional_targets=c13.target_alphabet(r))
            except Exception as e:
                viols.append(violation("runs", "simulate", "EXC:" + type(e).__name__, "with additional targets: " + str(e)[:400], params=vname))
                break
            traces += 1
            missing = [c for c in ["value", *r.states] if c not in fr3.columns]
            if missing:
                viols.append(violation("value==V[state]", "simulate", "ROW", f"with additional targets the panel has no column {missing}", params=vname))
                break
            frames.append((" [additional targets requested]", fr3))
        for tag, frx in frames:
          for t in range(r.T):
              sub = frx.loc[t]
              pos, on = [], np.ones(n, bool)
              for s in r.states:
                  g = r.grids[s]
                  x = np.asarray(sub[s].values, dtype=np.float64)
                  j = np.abs(g[None, :].astype(np.float64) - x[:, None]).argmin(axis=1)
                  tol = 0.0 if r.kind[s] == "DiscreteGrid" else 1e-12 * (1 + np.abs(g[j]))
                  on &= np.abs(g[j] - x) <= tol
                  pos.append(j)
              vals = np.asarray(sub["value"].values, dtype=np.float64)
              exp = Vfull[t][tuple(pos)]
              use = on & ~np.isnan(exp)
              if t == 0 and not on.all():
                  viols.append(violation("value==V[state]", "simulate", "ROW", "period-0 rows do not carry the on-grid initial states" + tag, params=vname))
              ok = e1.refmodel.close(vals, exp, 1e-12)  # infinities must agree exactly
              cnt += int(use.sum())
              if t > 0:
                  on_later += int(use.sum())
              if not ok[use].all():
                  i = int(np.argwhere(use & ~ok)[0][0])
                  st = {s: float(sub[s].values[i]) for s in r.states}
                  viols.append(violation("value==V[state]", "simulate", "ROW", f"period {t} agent {i} state {st}: simulated value {vals[i]!r}, solved array entry {exp[i]!r}" + tag, params=vname, period=t, agent=i))
                  break
          if viols:
            break
        if viols:
            break
    return outcome(
        status="violation" if viols else "ok",
        violations=viols,
        states=cnt,
        transitions=traces * b.fv["T"],
        traces=traces,
        digest=digest(dig),
        nontrivial=cnt > 0,
        counters={"on_grid_rows_after_period0": on_later},
    )


def replay_extra(case):
    b = e1.Built(case["fv"], case["seed"])
    return {"model_source": b.text if b.valid else None}
