"""C08 - agents are simulated independently of each other.

Engine E3: for every model of Family_1 a base batch of 4 agents (on- and off-grid; two agents
share the restricted state but differ in the continuous state and vice versa) is simulated,
then ALL 24 permutations, ALL 15 non-empty subsets, ALL 4 single duplications and ALL key
orders of the initial_states mapping.  Differential oracle: the path of an agent in the
transformed batch equals its path in the base batch.
"""
from __future__ import annotations

import itertools

import numpy as np

from mc import e1, family
from mc.explore import digest, outcome, violation

ID = "C08"
ENGINE = "E3"
RULE = (
    "one case per model of Family_1(B0) (thorough: + Family_2 on {filt,e,cc,h,cons}); inside: base batch of 4 agents and ALL "
    "24 permutations + 15 subsets + 4 duplications + all key orders (<= 6, rotations beyond 3 states); each (batch, agent, "
    "period) row compared with the base batch; stochastic models: period-0 rows only; distinct by digest of the base frame"
)
ASSUMPTIONS = ["labels and choices exact, floats 1e-12 (different batch sizes compile to different vector code)", "models with non-broadcast-safe transition functions are excluded here (known finding K5 is reported by C03)"]
BUDGET_S = {"quick": 1500, "thorough": 5400}


def BOUND(tier):
    return {"batch": 4, "permutations": 24, "subsets": 15, "duplications": 4, "key_orders": "all (<= 6)"}


def cases(tier, seed):
    out, seen = [], set()
    groups = [e1.family_members(1)[0]]
    if tier == "thorough":
        groups.append(e1.family_members(2, {k: family.FEATURES[k] for k in ["filt", "e", "cc", "h", "cons"]})[0])
    groups.append([(family.normalise(dict(family.BASE, **d)), 2) for d in ({"filt": "dp"}, {"filt": "dp", "T": 4}, {"filt": "dp", "e": 1})])
    for members in groups:
        for fv, dev in members:
            i = e1.fv_id(fv)
            if i not in seen:
                seen.add(i)
                out.append({"id": i, "fv": fv, "dev": dev, "seed": seed})
    return out


def case_rank(case):
    return case["dev"]


def cost(case):
    return case["fv"]["T"] * (2 if case["fv"]["k"] != "none" else 1)


def run_case(case):
    import jax.numpy as jnp
    from lcm.entry_point import get_lcm_function

    b = e1.Built(case["fv"], case["seed"])
    params = b.params("default")
    r, R, why = e1.reference(b.model, params)
    if why:
        return outcome(status="skipped", skip_reason=why, nontrivial=False)
    viols, cnt, traces = [], 0, 0
    try:
        V, _, _ = e1.lcm_solve(b.model, params)
        sim, _ = get_lcm_function(b.model, targets="simulate", debug_mode=False)
    except Exception as e:
        return outcome(status="violation", violations=[violation("runs", "create", "EXC:" + type(e).__name__, str(e)[:300])], digest="exc")
    Vj = [jnp.asarray(v) for v in V]
    init_all, n_grid = e1.initial_states(r, R[0], offgrid=True)
    n_all = len(next(iter(init_all.values())))
    # agent 0: first grid state; agent 1: its off-grid copy (same discrete, other continuous state);
    # agent 2: a grid state from the middle; agent 3: the last grid state
    pick = [0, (n_grid if n_all > n_grid else 1) % n_all, n_grid // 2, n_grid - 1]
    base = {s: v[pick] for s, v in init_all.items()}
    # agent 3 is replaced by an agent WITHOUT any feasible choice where the model allows one (continuous
    # wealth on a linear grid far below the smallest consumption level): its reported row is arbitrary, but it
    # must still depend on its own state only (and the other agents must not depend on it)
    fv = b.fv
    infeasible_agent = fv["cc"] != "none" and fv["wgrid"] in ("lin", "extrap") and fv["cons"] in ("c", "disc", "param", "aux", "tight") and "w" in base
    if infeasible_agent:
        base["w"] = base["w"].copy()
        base["w"][3] = 0.1
    stochastic = bool(r.stochastic)
    T = r.T
    cols_exact = [c for c in r.states + r.choices if r.kind[c] == "DiscreteGrid"]

    def run(idx, key_order=None, targets=None):
        nonlocal traces
        keys = key_order or list(base)
        init = {s: jnp.asarray(base[s][list(idx)]) for s in keys}
        if targets:
            fr = sim(params, initial_states=init, vf_arr_list=Vj, seed=11, additional_targets=list(targets))
        else:
            fr = sim(params, initial_states=init, vf_arr_list=Vj, seed=11)
        traces += 1
        return fr

    def paths(fr, n, extra=()):
        """array (n agents, T periods, columns)"""
        cols = ["value", *r.choices, *r.states, *extra]
        a = fr[cols].to_numpy(dtype=np.float64).reshape(T, n, len(cols))
        return np.transpose(a, (1, 0, 2)), cols

    P0 = None
    try:
        fr0 = run(range(4))
        P0, cols = paths(fr0, 4)
        periods = 1 if stochastic else T
        exact_idx = [cols.index(c) for c in cols_exact]

        def compare(idx, fr, label, ref=None, extra=()):
            nonlocal cnt
            P, cols = paths(fr, len(idx), extra)
            ref = P0 if ref is None else ref
            for j, a in enumerate(idx):
                x, y = P[j, :periods], ref[a, :periods]
                cnt += periods
                ok = e1.refmodel.close(x, y, 1e-12)  # infinities / NaN patterns must agree exactly
                ok[:, exact_idx] &= x[:, exact_idx] == y[:, exact_idx]
                if not ok.all():
                    t, c = [int(v) for v in np.argwhere(~ok)[0]]
                    viols.append(violation("agent-independence", "simulate", "PATH", f"{label}: agent {a} (position {j} in the batch): period {t} column {cols[c]} = {x[t, c]!r}, but {y[t, c]!r} in the base batch", batch=label))
                    return False
            return True

        done = False
        for perm in itertools.permutations(range(4)):
            if perm != (0, 1, 2, 3) and not compare(perm, run(perm), f"permutation {perm}"):
                done = True
                break
        if not done:
            for k in range(1, 4):
                for sub in itertools.combinations(range(4), k):
                    if not compare(sub, run(sub), f"subset {sub}"):
                        done = True
                        break
                if done:
                    break
        if not done:
            for d in range(4):
                idx = (0, 1, 2, 3, d)
                if not compare(idx, run(idx), f"duplication of agent {d}"):
                    done = True
                    break
        if not done:
            # a large batch (300 agents = the four base agents cycled): sizes beyond 2^8
            idx = tuple(j % 4 for j in range(300))
            if not compare(idx, run(idx), "batch of 300 agents (base agents cycled)"):
                done = True
        if not done:
            names = list(base)
            orders = list(itertools.permutations(names)) if len(names) <= 3 else [tuple(names[i:] + names[:i]) for i in range(len(names))] + [tuple(reversed(names))]
            for o in orders[1:]:
                if not compare((0, 1, 2, 3), run(range(4), key_order=list(o)), f"key order {o}"):
                    done = True
                    break
        if not done:
            # the same with every additional target requested: the target columns of an agent's rows are functions of
            # that agent's own rows (subsets of every size 1..3, one permutation, one duplication, a batch of 7)
            from mc.checks import c13

            alphabet = c13.target_alphabet(r)
            P0t, _ = paths(run(range(4), targets=alphabet), 4, alphabet)
            batches = [(f"subset {sub}", sub) for sub in ((0,), (2,), (1, 3), (0, 2), (0, 2, 3), (1, 2, 3))]
            batches += [("permutation (2, 0, 3, 1)", (2, 0, 3, 1)), ("duplication of agent 1", (0, 1, 2, 3, 1)), ("batch of 7", (3, 2, 1, 0, 0, 1, 2))]
            for label, idx in batches:
                if not compare(idx, run(idx, targets=alphabet), f"additional targets {alphabet}, {label}", ref=P0t, extra=alphabet):
                    break
    except Exception as e:
        viols.append(violation("runs", "simulate", "EXC:" + type(e).__name__, str(e)[:300]))
    return outcome(
        status="violation" if viols else "ok",
        violations=viols[:2],
        states=cnt,
        transitions=traces * T,
        traces=traces,
        digest=digest(P0) if P0 is not None else "exc",
        nontrivial=cnt > 0,
        counters={"stochastic_models_period0_only": 1 if stochastic else 0, "models_with_an_infeasible_agent": 1 if infeasible_agent else 0},
    )


def replay_extra(case):
    b = e1.Built(case["fv"], case["seed"])
    return {"model_source": b.text if b.valid else None}
