"""C14 - pre-computed values on a grid are represented as a faithful function.

Engine E2: spaces = restricted states with ALL non-empty feasibility masks over shapes
(2),(3),(2,2),(2,3) x 0-2 unrestricted discrete states x 0-3 continuous axes (linear/log,
sizes 2-4) x two arrays x the full product of a per-axis evaluation lattice x every feasible
discrete label combination; eager-vmapped, jitted and scalar evaluation; with/without prefix.
"""
from __future__ import annotations

import itertools

import numpy as np

from mc.explore import digest, outcome, violation

ID = "C14"
ENGINE = "E2"
RULE = (
    "one case per (restricted-state shape, block of feasibility masks, #unrestricted discrete states, continuous-axis "
    "configuration); block A: ALL masks x {0,1} continuous axes, block B: ALL 15 continuous configurations x 5 "
    "restricted configurations; inside: two arrays x every feasible label combination x full product of the value "
    "lattice {nodes, mid-points, quarter points, 2 below/above (linear)}; each point is an oracle evaluation"
)
ASSUMPTIONS = [
    "SpaceInfo objects are constructed directly from the documented dataclasses (the pipeline-generated ones are covered by C01)",
    "infeasible restricted combinations are never evaluated (the contract does not define them)",
    "log grids: evaluation points inside the range",
]
BUDGET_S = {"quick": 1200, "thorough": 5400}
RSHAPES = [(), (2,), (3,), (2, 2), (2, 3)]
CONT_SIZES = [3, 2, 4]


def BOUND(tier):
    return {"restricted_shapes": [list(s) for s in RSHAPES], "masks": "all non-empty", "dense_discrete": [0, 1, 2], "continuous_axes": [0, 1, 2, 3], "grid_types": ["lin", "log"]}


def _masks(shape):
    n = int(np.prod(shape)) if shape else 0
    return list(range(1, 2 ** n)) if n else [0]


def cases(tier, seed):
    out = []
    # block A: every mask, <= 1 continuous axis
    for shape in RSHAPES:
        ms = _masks(shape)
        for b in range(0, len(ms), 16):
            for nd in (0, 1, 2):
                for cont in ([], ["lin"], ["log"]):
                    out.append({"id": f"A-r{list(shape)}-masks{ms[b]}..{ms[min(b + 15, len(ms) - 1)]}-d{nd}-c{''.join(c[1] for c in cont) or '0'}", "rshape": list(shape), "masks": ms[b : b + 16], "nd": nd, "cont": cont, "seed": seed, "block": "A"})
    # block B: every continuous configuration, few restricted configurations
    rcfg = [((), [0]), ((2,), [3]), ((2, 3), [0b101101, 0b010010, 0b111111])]
    for shape, ms in rcfg:
        for nd in (0, 1, 2):
            for k in range(0, 4):
                for cont in itertools.product(["lin", "log"], repeat=k):
                    if k <= 1 and tier == "quick" and shape != ():
                        continue  # already in block A
                    if k == 3 and nd == 2 and tier == "quick":
                        continue
                    out.append({"id": f"B-r{list(shape)}-d{nd}-c{''.join(c[1] for c in cont) or '0'}", "rshape": list(shape), "masks": ms, "nd": nd, "cont": list(cont), "seed": seed, "block": "B"})
    # history cases: sequences of representations built in ONE process for the same variable name
    # (a representation must depend on its own space only, not on what was built before)
    out.append({"id": "history-same-name-sequences", "block": "H", "rshape": [], "masks": [0], "nd": 0, "cont": [], "seed": seed})
    return out


def cost(case):
    return len(case["masks"]) * (4 ** len(case["cont"])) * (1 + case["nd"])


def _grid(kind, n, j):
    from lcm.grids import LinspaceGrid, LogspaceGrid

    if kind == "lin":
        a, b = (-1.0 + j, 2.5 + j)
        return LinspaceGrid(start=a, stop=b, n_points=n), np.linspace(a, b, n)
    a, b = (0.5 + j, 6.0 + 2 * j)
    return LogspaceGrid(start=a, stop=b, n_points=n), np.exp(np.linspace(np.log(a), np.log(b), n))


def _lattice(kind, nodes, coarse):
    pts = [nodes, nodes[:-1] + 0.5 * np.diff(nodes)]
    if not coarse:
        pts += [nodes[:-1] + 0.25 * np.diff(nodes), nodes[:-1] + 0.75 * np.diff(nodes)]
    if kind == "lin":
        step = nodes[1] - nodes[0]
        pts.append(np.array([nodes[0] - 1.7 * step, nodes[0] - 0.4 * step, nodes[-1] + 0.4 * step, nodes[-1] + 1.7 * step]))
    return np.sort(np.concatenate(pts))


def _ref_coord(nodes, v):
    i = np.clip(np.searchsorted(nodes, v, side="right") - 1, 0, len(nodes) - 2)
    return i + (v - nodes[i]) / (nodes[i + 1] - nodes[i])


def _run_history(case):
    """All sequences of length <= 3 over an alphabet of 1-d spaces that share the variable name."""
    import jax
    import jax.numpy as jnp
    from lcm.function_representation import get_function_representation
    from lcm.grids import LinspaceGrid, LogspaceGrid
    from lcm.interfaces import SpaceInfo

    alphabet = [("lin", 0.5, 6.0, 3), ("log", 0.5, 6.0, 3), ("lin", 0.5, 6.0, 4), ("log", 1.5, 6.0, 3), ("lin", 1.5, 6.0, 3)]
    viols, cnt, dig = [], 0, []

    def evaluate(letter, prefix):
        kind, a, b, n = letter
        grid = (LinspaceGrid if kind == "lin" else LogspaceGrid)(start=a, stop=b, n_points=n)
        nodes = np.linspace(a, b, n) if kind == "lin" else np.exp(np.linspace(np.log(a), np.log(b), n))
        info = SpaceInfo(axis_names=["x0"], lookup_info={}, interpolation_info={"x0": grid}, indexer_infos=[])
        f = get_function_representation(info, "vf_arr", input_prefix=prefix)
        arr = np.sin(1.7 * np.arange(n)) * 3 + np.arange(n) ** 2
        pts = _lattice(kind, nodes, False)
        got = np.asarray(jax.vmap(lambda v: f(**{prefix + "x0": v}, vf_arr=jnp.asarray(arr)))(jnp.asarray(pts)))
        from mc.checks.c15 import ref_map

        exp = ref_map(arr, _ref_coord(nodes, pts)[None])
        return got, exp, pts

    for L in (1, 2, 3):
        for seq in itertools.product(range(len(alphabet)), repeat=L):
            for prefix in ("", "next_"):
                for pos, li in enumerate(seq):
                    got, exp, pts = evaluate(alphabet[li], prefix)
                    cnt += len(pts)
                    if pos == len(seq) - 1:
                        dig.append(np.round(got, 8))
                    bad = ~(np.abs(got - exp) <= 1e-9 * (1 + np.abs(exp)))
                    if bad.any() and not viols:
                        i = int(np.argwhere(bad)[0][0])
                        viols.append(violation("function-representation-history", "vmap", "VALUE", f"sequence of spaces {[alphabet[j] for j in seq]} (same variable name x0, prefix '{prefix}'), element #{pos}: at x0={pts[i]!r} got {got[i]!r}, reference {exp[i]!r}"))
    return outcome(status="violation" if viols else "ok", violations=viols, states=cnt, transitions=cnt, traces=cnt, digest=digest(dig))


def run_case(case):
    if case["block"] == "H":
        return _run_history(case)
    import jax
    import jax.numpy as jnp
    from dataclasses import make_dataclass

    from lcm.function_representation import get_function_representation
    from lcm.grids import DiscreteGrid
    from lcm.interfaces import IndexerInfo, SpaceInfo
    from mc.checks.c15 import ref_map

    def D(n):
        return DiscreteGrid(make_dataclass(f"C{n}", [(f"c{i}", int, i) for i in range(n)]))

    rshape = tuple(case["rshape"])
    rnames = [f"r{i}" for i in range(len(rshape))]
    dnames = [f"d{i}" for i in range(case["nd"])]
    dsizes = [3, 2][: case["nd"]]
    cnames = [f"x{i}" for i in range(len(case["cont"]))]
    grids, nodes = {}, {}
    for j, (cn, kind) in enumerate(zip(cnames, case["cont"])):
        grids[cn], nodes[cn] = _grid(kind, CONT_SIZES[j], j)
    coarse = len(cnames) >= 3
    lookup = {n: D(k) for n, k in zip(rnames + dnames, list(rshape) + dsizes)}
    if case["block"] == "B":
        # the ORDER of the entries of lookup_info / interpolation_info carries no meaning: reversed on purpose
        lookup = dict(reversed(list(lookup.items())))
        grids = dict(reversed(list(grids.items())))
    axis_names = (["state_index"] if rnames else []) + dnames + cnames
    info = SpaceInfo(
        axis_names=axis_names,
        lookup_info=lookup,
        interpolation_info=dict(grids),
        indexer_infos=[IndexerInfo(axis_names=rnames, name="state_indexer", out_name="state_index")] if rnames else [],
    )
    viols, cnt, dig = [], 0, []
    rng = np.random.default_rng(3 + case["seed"])
    lat = [_lattice(kind, nodes[cn], coarse) for cn, kind in zip(cnames, case["cont"])]
    cmesh = [m.reshape(-1) for m in np.meshgrid(*lat, indexing="ij")] if cnames else []
    npts = len(cmesh[0]) if cnames else 1
    for mi, mask_bits in enumerate(case["masks"]):
        if rnames:
            ncell = int(np.prod(rshape))
            mask = np.array([(mask_bits >> (ncell - 1 - i)) & 1 for i in range(ncell)], dtype=bool).reshape(rshape)
            indexer = np.full(rshape, -1)
            indexer[mask] = np.arange(int(mask.sum()))
            nfeas = int(mask.sum())
            rcombos = [idx for idx in itertools.product(*[range(k) for k in rshape]) if mask[idx]]
        else:
            indexer, nfeas, rcombos = None, None, [()]
        shape = ((nfeas,) if rnames else ()) + tuple(dsizes) + tuple(len(nodes[c]) for c in cnames)
        size = int(np.prod(shape)) if shape else 1
        arrays = [
            (rng.permutation(size).astype(np.float64) * 1.37 - 3.1).reshape(shape),
            (np.sin(1.3 * np.arange(size)) * 2.0 + 0.01 * np.arange(size) ** 1.5).reshape(shape),
        ]
        for prefix in (("next_",) if mi % 2 else ("",)) if case["block"] == "A" else ("", "next_"):
            try:
                f = get_function_representation(info, "vf_arr", input_prefix=prefix)
            except Exception as e:
                viols.append(violation("function-representation", "create", "EXC:" + type(e).__name__, f"space {case['id']}: {e}"))
                break
            dcombos = list(itertools.product(*[range(k) for k in dsizes]))
            # all label combinations x lattice, flattened into one batch
            labels = [(rc, dc) for rc in rcombos for dc in dcombos]
            batch = {}
            for j, n in enumerate(rnames):
                batch[prefix + n] = np.repeat(np.array([l[0][j] for l in labels]), npts)
            for j, n in enumerate(dnames):
                batch[prefix + n] = np.repeat(np.array([l[1][j] for l in labels]), npts)
            for j, n in enumerate(cnames):
                batch[prefix + n] = np.tile(cmesh[j], len(labels))
            fixed = {}
            if rnames:
                fixed["state_indexer"] = jnp.asarray(indexer)
            names = list(batch)
            for ai, arr in enumerate(arrays):
                # reference
                exp = np.empty(len(labels) * npts)
                for li, (rc, dc) in enumerate(labels):
                    sub = arr
                    if rnames:
                        sub = sub[indexer[rc]]
                    sub = sub[dc] if dc else sub
                    if cnames:
                        coords = np.stack([_ref_coord(nodes[c], cmesh[j]) for j, c in enumerate(cnames)])
                        exp[li * npts : (li + 1) * npts] = ref_map(sub, coords)
                    else:
                        exp[li] = sub
                def call(*vals, _arr=arr):
                    return f(**dict(zip(names, vals)), **fixed, vf_arr=jnp.asarray(_arr))
                modes = ["vmap"]
                if mi % 8 == 0:
                    modes.append("jit")
                for mode in modes:
                    try:
                        g = jax.vmap(call)
                        if mode == "jit":
                            g = jax.jit(g)
                        got = np.asarray(g(*[jnp.asarray(batch[n]) for n in names])) if names else np.asarray(call())[None]
                    except Exception as e:
                        if not viols:
                            viols.append(violation("function-representation", mode, "EXC:" + type(e).__name__, f"space {case['id']} mask {mask_bits:b} prefix '{prefix}': {str(e)[:400]}"))
                        continue
                    cnt += len(exp)
                    if mode == "vmap":
                        dig.append(np.round(got, 8))
                    bad = ~(np.abs(got - exp) <= 1e-9 * (1 + np.abs(exp)))
                    if bad.any() and not viols:
                        i = int(np.argwhere(bad)[0][0])
                        pt = {n: batch[n][i].item() for n in names}
                        viols.append(violation("function-representation", mode, "VALUE", f"space {case['id']} mask {mask_bits:b} prefix '{prefix}' array {ai} at {pt}: got {got[i]!r}, reference {exp[i]!r} ({int(bad.sum())} of {len(bad)} points differ)"))
                # scalar eager evaluation of a few points
                for i in range(0, len(exp), max(1, len(exp) // 5)):
                    try:
                        gs = float(call(*[batch[n][i] for n in names]))
                    except Exception as e:
                        if not viols:
                            viols.append(violation("function-representation", "scalar", "EXC:" + type(e).__name__, str(e)[:300]))
                        break
                    cnt += 1
                    if not abs(gs - exp[i]) <= 1e-9 * (1 + abs(exp[i])) and not viols:
                        viols.append(violation("function-representation", "scalar", "VALUE", f"space {case['id']} mask {mask_bits:b}: scalar call differs: {gs!r} vs {exp[i]!r}"))
    return outcome(status="violation" if viols else "ok", violations=viols, states=cnt, transitions=cnt, traces=cnt, digest=digest(dig, case["id"]))
