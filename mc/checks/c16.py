"""C16 - a grid is either rejected or materialises exactly as specified.

Engine E2: every (start, stop, n_points) triple over a 20 x 20 x 10 alphabet of numeric and
non-numeric values for both continuous grid classes; every dataclass with 1-3 fields over an
11-value alphabet (all ordered tuples, hence both declaration orders) plus non-dataclasses.
"""
from __future__ import annotations

import dataclasses
import itertools
import math
from typing import ClassVar  # module level: string annotations are resolved in the module namespace

import numpy as np

from mc.explore import digest, outcome, violation

ID = "C16"
ENGINE = "E2"
RULE = (
    "one case per (grid class, start value) resp. per first field value; inside ALL stop x n_points combinations resp. "
    "ALL field tuples; every construction is an oracle evaluation (rejected with GridInitializationError XOR materialises "
    "as specified); distinct by digest of (accepted?, array)"
)
ASSUMPTIONS = ["sub-normal bounds are outside the alphabet (XLA flushes them to zero on CPU)", "x64 enabled (as in the upstream test-suite), so Python floats are represented exactly"]
BUDGET_S = {"quick": 900, "thorough": 3600}


def A():
    return [
        ("-2", -2), ("-1.0", -1.0), ("0", 0), ("0.0", 0.0), ("0.5", 0.5), ("1", 1), ("1.5", 1.5), ("2", 2), ("10", 10), ("1e6", 1e6),
        ("inf", math.inf), ("-inf", -math.inf), ("nan", math.nan), ("True", True), ("False", False),
        ("np.float64(1.5)", np.float64(1.5)), ("np.int64(1)", np.int64(1)), ("'1'", "1"), ("None", None), ("1+0j", 1 + 0j),
    ]


def N():
    return [("-1", -1), ("0", 0), ("1", 1), ("2", 2), ("3", 3), ("10", 10), ("True", True), ("2.0", 2.0), ("'3'", "3"), ("None", None)]


FIELD_ALPHA = [("0", 0), ("1", 1), ("2", 2), ("-1", -1), ("0.0", 0.0), ("1.0", 1.0), ("1.5", 1.5), ("True", True), ("False", False), ("'a'", "a"), ("None", None)]


def BOUND(tier):
    return {"start_stop_alphabet": [a for a, _ in A()], "n_points_alphabet": [a for a, _ in N()], "field_alphabet": [a for a, _ in FIELD_ALPHA], "max_fields": 3 if tier == "quick" else 4}


def cases(tier, seed):
    out = []
    for cls in ("LinspaceGrid", "LogspaceGrid"):
        for i, (lab, _) in enumerate(A()):
            out.append({"id": f"{cls}-start={lab}", "kind": "cont", "cls": cls, "start_i": i})
    for i, (lab, _) in enumerate(FIELD_ALPHA):
        out.append({"id": f"discrete-first={lab}", "kind": "disc", "first_i": i, "maxf": 3 if tier == "quick" else 4})
    out.append({"id": "discrete-non-dataclass", "kind": "nondc"})
    # size sweep: EVERY n_points from 2 to 64 (quick) / 256 (thorough) x every ordered pair of finite
    # bounds (incl. non-dyadic ones); end points exact, shape, monotonicity, spacing
    for cls in ("LinspaceGrid", "LogspaceGrid"):
        out.append({"id": f"{cls}-size-sweep", "kind": "sweep", "cls": cls, "nmax": 64 if tier == "quick" else 256})
    return out


def _run_cont(case):
    import lcm.grids as G
    from lcm.exceptions import GridInitializationError

    cls = getattr(G, case["cls"])
    slab, start = A()[case["start_i"]]
    viols, cnt, dig, acc = [], 0, [], 0
    for (tlab, stop), (nlab, n) in itertools.product(A(), N()):
        cnt += 1
        desc = f"{case['cls']}(start={slab}, stop={tlab}, n_points={nlab})"
        try:
            g = cls(start=start, stop=stop, n_points=n)
        except GridInitializationError:
            dig.append("rejected")
            continue
        except Exception as e:
            if not viols:
                viols.append(violation("reject-or-materialise", "construct", "EXC:" + type(e).__name__, f"{desc}: raised {type(e).__name__}: {e}"))
            continue
        try:
            raw = np.asarray(g.to_jax())
            # bool bounds make jnp compute in float32 even under x64; tolerances follow the
            # precision of the returned array (the property fixes no tolerance)
            rtol = 1e-12 if raw.dtype == np.float64 else 1e-6
            arr = raw.astype(np.float64)
        except Exception as e:
            if not viols:
                viols.append(violation("reject-or-materialise", "to_jax", "EXC:" + type(e).__name__, f"{desc}: accepted but to_jax raised {type(e).__name__}: {e}"))
            continue
        acc += 1
        dig.append(arr)
        problems = []
        try:
            nn = int(n)
            fs, ft = float(start), float(stop)
        except Exception:
            problems.append("accepted although start/stop/n_points are not numeric")
            nn = None
        if nn is not None:
            if nn < 1:
                problems.append(f"accepted with n_points={nn} (no first element)")
            elif arr.shape != (nn,):
                problems.append(f"shape {arr.shape} != ({nn},)")
            elif not np.isfinite(arr).all():
                problems.append(f"non-finite values {arr.tolist()[:5]}")
            else:
                if nn >= 2 and not (np.diff(arr) > 0).all():
                    problems.append(f"not strictly increasing: {arr.tolist()[:6]}")
                exact = case["cls"] == "LinspaceGrid"
                # log grids pass through exp(log(.)): relative error ~ |log x| * eps
                if not (arr[0] == fs if exact else abs(arr[0] - fs) <= rtol * abs(fs)):
                    problems.append(f"first element {arr[0]!r} != start {fs!r}")
                if nn >= 2 and not (arr[-1] == ft if exact else abs(arr[-1] - ft) <= rtol * abs(ft)):
                    problems.append(f"last element {arr[-1]!r} != stop {ft!r}")
                if nn >= 3:
                    sc = arr if exact else np.log(arr)
                    d = np.diff(sc)
                    if not np.all(np.abs(d - d.mean()) <= 1e3 * rtol * (abs(d.mean()) + np.abs(sc).max())):
                        problems.append(f"not equally spaced: {arr.tolist()[:6]}")
        if problems and not viols:
            viols.append(violation("reject-or-materialise", "materialise", "VALUE", f"{desc}: " + "; ".join(problems)))
    return outcome(status="violation" if viols else "ok", violations=viols, states=cnt, transitions=cnt, traces=acc, digest=digest(dig), counters={"accepted": acc})


def _expected_accept(values):
    for i, v in enumerate(values):
        if isinstance(v, (str, type(None), complex)) or not isinstance(v, (int, float)):
            return False
        if not (v == i):
            return False
    return len(values) > 0


def _run_disc(case):
    from lcm.exceptions import GridInitializationError
    from lcm.grids import DiscreteGrid

    viols, cnt, dig, acc = [], 0, [], 0
    first = FIELD_ALPHA[case["first_i"]]
    for nf in range(1, case["maxf"] + 1):
        for rest in itertools.product(FIELD_ALPHA, repeat=nf - 1):
            combo = (first, *rest)
            labels = [l for l, _ in combo]
            values = [v for _, v in combo]
            cnt += 1
            dc = dataclasses.make_dataclass("Cat", [(f"f{i}", object, dataclasses.field(default=v)) for i, v in enumerate(values)])
            desc = f"dataclass fields {labels}"
            want = _expected_accept(values)
            try:
                g = DiscreteGrid(dc)
                ok = True
            except GridInitializationError:
                ok = False
            except Exception as e:
                if not viols:
                    viols.append(violation("discrete-accept-iff", "construct", "EXC:" + type(e).__name__, f"{desc}: raised {type(e).__name__}: {e}"))
                continue
            dig.append([ok])
            if ok != want and not viols:
                viols.append(violation("discrete-accept-iff", "construct", "VALUE", f"{desc}: accepted={ok}, expected accepted={want}"))
            if ok:
                acc += 1
                try:
                    arr = np.asarray(g.to_jax())
                    good = arr.shape == (nf,) and np.array_equal(arr.astype(np.float64), np.arange(nf, dtype=np.float64)) and [float(c) for c in g.codes] == list(map(float, range(nf))) and list(g.categories) == [f"f{i}" for i in range(nf)]
                except Exception as e:
                    good = False
                    arr = repr(e)
                if not good and not viols:
                    viols.append(violation("discrete-array-form", "to_jax", "VALUE", f"{desc}: array form {arr!r} / codes {g.codes!r}"))
    return outcome(status="violation" if viols else "ok", violations=viols, states=cnt, transitions=cnt, traces=acc, digest=digest(dig, case["first_i"]), counters={"accepted": acc})


def _run_nondc(case):
    from lcm.exceptions import GridInitializationError
    from lcm.grids import DiscreteGrid

    class Plain:
        a = 0
        b = 1

    @dataclasses.dataclass
    class Empty:
        pass

    @dataclasses.dataclass
    class NoDefaults:
        a: int
        b: int

    viols, cnt = [], 0
    for label, obj in (("plain class", Plain), ("empty dataclass", Empty), ("dataclass without defaults", NoDefaults), ("int", 3), ("None", None), ("dict", {"a": 0}), ("list", [0, 1]), ("str", "ab")):
        cnt += 1
        try:
            DiscreteGrid(obj)
            viols.append(violation("discrete-accept-iff", "construct", "VALUE", f"{label}: accepted"))
        except GridInitializationError:
            pass
        except Exception as e:
            viols.append(violation("discrete-accept-iff", "construct", "EXC:" + type(e).__name__, f"{label}: raised {type(e).__name__}: {e}"))
    # dataclasses with pseudo-fields / inheritance: only real fields (dataclasses.fields) are categories
    @dataclasses.dataclass
    class WithClassVarInt:
        bad: int = 0
        good: int = 1
        n_categories: ClassVar[int] = 2

    @dataclasses.dataclass
    class WithClassVarStr:
        label: ClassVar[str] = "health"
        bad: int = 0
        good: int = 1

    @dataclasses.dataclass
    class WithInitVar:
        low: int = 0
        high: int = 1
        scale: dataclasses.InitVar[int] = 2

    @dataclasses.dataclass
    class Base2:
        a: int = 0
        b: int = 1

    @dataclasses.dataclass
    class Inherited(Base2):
        c: int = 2

    @dataclasses.dataclass
    class InheritedGap(Base2):
        c: int = 3

    @dataclasses.dataclass(frozen=True)
    class Frozen:
        x: int = 0
        y: int = 1

    for label, cls, want, codes in (
        ("ClassVar[int] constant next to fields 0,1", WithClassVarInt, True, [0, 1]),
        ("ClassVar[str] constant before fields 0,1", WithClassVarStr, True, [0, 1]),
        ("InitVar pseudo-field after fields 0,1", WithInitVar, True, [0, 1]),
        ("inherited dataclass 0,1,2", Inherited, True, [0, 1, 2]),
        ("inherited dataclass 0,1,3", InheritedGap, False, None),
        ("frozen dataclass 0,1", Frozen, True, [0, 1]),
    ):
        cnt += 1
        try:
            g = DiscreteGrid(cls)
            ok = True
        except GridInitializationError:
            ok = False
        except Exception as e:
            viols.append(violation("discrete-accept-iff", "construct", "EXC:" + type(e).__name__, f"{label}: raised {type(e).__name__}: {e}"))
            continue
        if ok != want:
            viols.append(violation("discrete-accept-iff", "construct", "VALUE", f"{label}: accepted={ok}, expected accepted={want}"))
        elif ok:
            arr = np.asarray(g.to_jax()).astype(np.float64).tolist()
            if arr != [float(c) for c in codes] or len(g.categories) != len(codes):
                viols.append(violation("discrete-array-form", "to_jax", "VALUE", f"{label}: array form {arr}, categories {g.categories}; expected codes {codes}"))
    return outcome(status="violation" if viols else "ok", violations=viols[:1], states=cnt, transitions=cnt, traces=0, digest=digest("nondc", cnt))


SWEEP_BOUNDS = [-2, -1.0, -1 / 3, 0, 0.1, 0.5, 1, 1.5, 3.3, 10, 1e6]


def _run_sweep(case):
    import lcm.grids as G

    cls = getattr(G, case["cls"])
    log = case["cls"] == "LogspaceGrid"
    viols, cnt, dig = [], 0, []
    bounds = [b for b in SWEEP_BOUNDS if b > 0] if log else SWEEP_BOUNDS
    for start, stop in itertools.combinations(bounds, 2):
        for n in range(2, case["nmax"] + 1):
            cnt += 1
            desc = f"{case['cls']}(start={start!r}, stop={stop!r}, n_points={n})"
            try:
                arr = np.asarray(cls(start=start, stop=stop, n_points=n).to_jax()).astype(np.float64)
            except Exception as e:
                if not viols:
                    viols.append(violation("reject-or-materialise", "size-sweep", "EXC:" + type(e).__name__, f"{desc}: raised {type(e).__name__}: {e}"))
                continue
            problems = []
            fs, ft = float(start), float(stop)
            if arr.shape != (n,):
                problems.append(f"shape {arr.shape} != ({n},)")
            elif not np.isfinite(arr).all():
                problems.append("non-finite values")
            else:
                if not (np.diff(arr) > 0).all():
                    problems.append("not strictly increasing")
                if not (abs(arr[0] - fs) <= 1e-12 * abs(fs) if log else arr[0] == fs):
                    problems.append(f"first element {arr[0]!r} != start {fs!r}")
                if not (abs(arr[-1] - ft) <= 1e-12 * abs(ft) if log else arr[-1] == ft):
                    problems.append(f"last element {arr[-1]!r} != stop {ft!r}")
                sc = np.log(arr) if log else arr
                ref = np.linspace(np.log(fs) if log else fs, np.log(ft) if log else ft, n)
                if not np.all(np.abs(sc - ref) <= 1e-9 * (1 + np.abs(ref).max())):
                    problems.append("nodes differ from the equally spaced reference")
            if n in (2, 3, 50, case["nmax"]):
                dig.append(arr)
            if problems and not viols:
                viols.append(violation("reject-or-materialise", "size-sweep", "VALUE", f"{desc}: " + "; ".join(problems)))
    return outcome(status="violation" if viols else "ok", violations=viols, states=cnt, transitions=cnt, traces=cnt, digest=digest(dig), counters={"accepted": cnt})


def run_case(case):
    return {"cont": _run_cont, "disc": _run_disc, "nondc": _run_nondc, "sweep": _run_sweep}[case["kind"]](case)
