"""C15 - interpolation kernel and grid coordinates are exact inverses of the grids.

Engine E2: all shapes over sizes {2,3,4} for ranks 1-3 and {2,3} for rank 4, the full
product of a per-axis coordinate lattice (inside, nodes, quarter points, outside on both
sides), scalar and batched calls, integer arrays; all grids over a (start, length,
n_points) alphabet with a value lattice per grid.
"""
from __future__ import annotations

import itertools

import numpy as np

from mc.explore import digest, outcome, violation

ID = "C15"
ENGINE = "E2"
RULE = (
    "one case per array shape (map_coordinates) or per (grid type, start, length) (coordinates); inside: full product "
    "of the per-axis coordinate lattice {-1.5,-1,-0.5, 0,0.25,...,n-1, n-0.5,n+0.5} / all n_points of the alphabet x "
    "value lattice (nodes, quarter points, outside points for linear grids); each point is an oracle evaluation"
)
ASSUMPTIONS = ["reference: numpy multilinear blend of the 2^rank neighbours with the lower index clipped to [0,n-2]", "tolerance 1e-9 relative", "log grids: values inside the range only (as the property states)"]
BUDGET_S = {"quick": 900, "thorough": 3600}
STARTS = [-2.0, 0.0, 0.5, 1.0, 10.0]
LENGTHS = [0.5, 1.0, 3.0, 99.0]
NPOINTS = [2, 3, 4, 5, 10, 100]


def BOUND(tier):
    return {"ranks": [1, 2, 3, 4], "sizes": [2, 3, 4], "sizes_rank4": [2, 3], "starts": STARTS, "lengths": LENGTHS, "n_points": NPOINTS}


def cases(tier, seed):
    out = []
    for rank in (1, 2, 3):
        for shape in itertools.product([2, 3, 4], repeat=rank):
            out.append({"id": f"mapcoord-{list(shape)}", "kind": "mapcoord", "shape": list(shape), "seed": seed})
    for shape in itertools.product([2, 3], repeat=4):
        out.append({"id": f"mapcoord-{list(shape)}", "kind": "mapcoord", "shape": list(shape), "seed": seed})
    if tier == "thorough":
        for shape in [(5, 7), (7, 5, 2), (2, 6, 3)]:
            out.append({"id": f"mapcoord-{list(shape)}", "kind": "mapcoord", "shape": list(shape), "seed": seed})
    for kind in ("lin", "log"):
        for start in STARTS:
            if kind == "log" and start <= 0:
                continue
            for length in LENGTHS:
                out.append({"id": f"grid-{kind}-{start}-{length}", "kind": "grid", "gkind": kind, "start": start, "length": length})
    return out


def cost(case):
    return int(np.prod(case["shape"])) ** 2 if case["kind"] == "mapcoord" else 10


def lattice(n, coarse=False):
    inside = np.arange(0, n - 1 + 1e-9, 0.5 if coarse else 0.25)
    return np.concatenate([[-1.5, -1.0, -0.5], inside, [n - 0.5, n + 0.5]])


def ref_map(arr, coords):
    """coords: (rank, N).  Multilinear blend with linear continuation."""
    rank = arr.ndim
    N = coords.shape[1]
    lo, w = [], []
    for d in range(rank):
        c = coords[d]
        i = np.clip(np.floor(c), 0, arr.shape[d] - 2).astype(int)
        lo.append(i)
        w.append(c - i)
    out = np.zeros(N)
    for corner in itertools.product([0, 1], repeat=rank):
        weight = np.ones(N)
        idx = []
        for d, b in enumerate(corner):
            idx.append(lo[d] + b)
            weight = weight * (w[d] if b else 1 - w[d])
        out = out + weight * arr[tuple(idx)]
    return out


def _run_mapcoord(case):
    import jax.numpy as jnp
    from lcm.ndimage import map_coordinates

    shape = tuple(case["shape"])
    rank = len(shape)
    rng = np.random.default_rng(11 + case["seed"])
    n = int(np.prod(shape))
    arr = (rng.permutation(n).astype(np.float64) * 1.37 + 0.11).reshape(shape)  # all-distinct entries
    lat = [lattice(s, coarse=(rank == 4)) for s in shape]
    mesh = np.meshgrid(*lat, indexing="ij")
    coords = np.stack([m.reshape(-1) for m in mesh])
    viols, cnt, dig = [], 0, []
    exp = ref_map(arr, coords)
    # batched call: list of arrays
    got = np.asarray(map_coordinates(jnp.asarray(arr), [jnp.asarray(c) for c in coords]))
    cnt += coords.shape[1]
    dig.append(np.round(got, 9))
    bad = ~(np.abs(got - exp) <= 1e-9 * (1 + np.abs(exp)))
    if bad.any():
        i = int(np.argwhere(bad)[0][0])
        viols.append(violation("map_coordinates", "batched", "VALUE", f"shape {shape} coordinate {coords[:, i].tolist()}: got {got[i]!r}, reference {exp[i]!r} ({int(bad.sum())} of {len(bad)} points differ)"))
    # batched call: one 2-d coordinate array (as the function representation passes it)
    got2 = np.asarray(map_coordinates(jnp.asarray(arr), jnp.asarray(coords)))
    cnt += coords.shape[1]
    if not np.array_equal(got, got2) and not viols:
        viols.append(violation("map_coordinates", "array-coords", "VALUE", f"shape {shape}: list-of-arrays and 2-d coordinate array give different results"))
    # scalar calls on a sub-lattice (every 7th point) and exact reproduction at nodes
    for i in range(0, coords.shape[1], 7):
        g = float(map_coordinates(jnp.asarray(arr), [jnp.asarray(c) for c in coords[:, i]]))
        cnt += 1
        if not abs(g - exp[i]) <= 1e-9 * (1 + abs(exp[i])) and not viols:
            viols.append(violation("map_coordinates", "scalar", "VALUE", f"shape {shape} coordinate {coords[:, i].tolist()}: got {g!r}, reference {exp[i]!r}"))
    nodes = np.stack([m.reshape(-1) for m in np.meshgrid(*[np.arange(s) for s in shape], indexing="ij")]).astype(np.float64)
    gn = np.asarray(map_coordinates(jnp.asarray(arr), [jnp.asarray(c) for c in nodes]))
    cnt += nodes.shape[1]
    if not np.allclose(gn, arr.reshape(-1), rtol=1e-12, atol=1e-12) and not viols:
        viols.append(violation("map_coordinates", "nodes", "VALUE", f"shape {shape}: integer coordinates do not reproduce the entries"))
    # integer dtype at integer coordinates returns the entries (same dtype)
    iarr = rng.permutation(n).reshape(shape).astype(np.int64)
    gi = map_coordinates(jnp.asarray(iarr), [jnp.asarray(c) for c in nodes])
    cnt += nodes.shape[1]
    if (not np.array_equal(np.asarray(gi), iarr.reshape(-1)) or not np.issubdtype(np.asarray(gi).dtype, np.integer)) and not viols:
        viols.append(violation("map_coordinates", "integer-array", "VALUE", f"shape {shape}: integer array at integer coordinates: {np.asarray(gi).tolist()[:6]} vs {iarr.reshape(-1).tolist()[:6]}"))
    # wrong number of coordinates must be rejected
    try:
        map_coordinates(jnp.asarray(arr), [jnp.asarray(0.0)] * (rank + 1))
        if not viols:
            viols.append(violation("map_coordinates", "validation", "NOEXC", "wrong number of coordinates accepted"))
    except ValueError:
        cnt += 1
    return outcome(status="violation" if viols else "ok", violations=viols, states=cnt, transitions=cnt, traces=cnt, digest=digest(dig))


def _run_grid(case):
    import jax.numpy as jnp
    from lcm.grids import LinspaceGrid, LogspaceGrid
    from lcm.ndimage import map_coordinates

    start, stop = case["start"], case["start"] + case["length"]
    viols, cnt, dig = [], 0, []
    for n in NPOINTS:
        if case["gkind"] == "lin":
            g = LinspaceGrid(start=start, stop=stop, n_points=n)
            nodes = np.linspace(start, stop, n)
        else:
            g = LogspaceGrid(start=start, stop=stop, n_points=n)
            nodes = np.exp(np.linspace(np.log(start), np.log(stop), n))
        arr = np.asarray(g.to_jax())
        vals = [nodes]
        for q in (0.25, 0.5, 0.75):
            vals.append(nodes[:-1] + q * np.diff(nodes))
        vals = np.sort(np.concatenate(vals))
        if case["gkind"] == "lin":
            step = (stop - start) / (n - 1)
            vals = np.concatenate([[start - 2.5 * step, start - step, start - 0.3 * step], vals, [stop + 0.3 * step, stop + step, stop + 2.5 * step]])
        coords = np.asarray(g.get_coordinate(jnp.asarray(vals)))
        coords_scalar = np.array([float(g.get_coordinate(float(v))) for v in vals[:: max(1, len(vals) // 25)]])
        cnt += len(vals)
        dig.append(np.round(coords, 7))
        if not np.allclose(coords[:: max(1, len(vals) // 25)], coords_scalar, rtol=1e-12, atol=1e-12) and not viols:
            viols.append(violation("coordinate", "scalar-vs-array", "VALUE", f"{case['gkind']} grid ({start},{stop},{n}): scalar and array evaluation differ"))
        # nodes -> index
        cn = np.asarray(g.get_coordinate(jnp.asarray(nodes)))
        bad = ~(np.abs(cn - np.arange(n)) <= 1e-9 * (1 + np.arange(n)))
        if bad.any() and not viols:
            i = int(np.argwhere(bad)[0][0])
            viols.append(violation("coordinate", "node-index", "VALUE", f"{case['gkind']} grid ({start},{stop},{n}): coordinate of node {i} (value {nodes[i]!r}) is {cn[i]!r}"))
        # the materialised grid equals the nodes
        if not np.allclose(arr, nodes, rtol=1e-12, atol=1e-12) and not viols:
            viols.append(violation("grid", "materialise", "VALUE", f"{case['gkind']} grid ({start},{stop},{n}): to_jax() differs from the specification"))
        # strictly increasing
        d = np.diff(coords)
        if not (d > 0).all() and not viols:
            i = int(np.argwhere(~(d > 0))[0][0])
            viols.append(violation("coordinate", "monotone", "VALUE", f"{case['gkind']} grid ({start},{stop},{n}): coordinates not strictly increasing between values {vals[i]!r} and {vals[i + 1]!r}: {coords[i]!r}, {coords[i + 1]!r}"))
        # interpolating the grid itself at the coordinate of a value returns that value
        back = np.asarray(map_coordinates(jnp.asarray(arr), [jnp.asarray(coords)]))
        cnt += len(vals)
        bad = ~(np.abs(back - vals) <= 1e-9 * (1 + np.abs(vals)))
        if bad.any() and not viols:
            i = int(np.argwhere(bad)[0][0])
            viols.append(violation("coordinate", "inverse", "VALUE", f"{case['gkind']} grid ({start},{stop},{n}): value {vals[i]!r} -> coordinate {coords[i]!r} -> {back[i]!r}"))
    return outcome(status="violation" if viols else "ok", violations=viols, states=cnt, transitions=cnt, traces=cnt, digest=digest(dig))


def run_case(case):
    return {"mapcoord": _run_mapcoord, "grid": _run_grid}[case["kind"]](case)
