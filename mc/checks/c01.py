"""C01 - solve() returns the exact backward-induction (Bellman) solution on the grid.

Engine E1.  Enumerates the complete family Family_k(B0) of model programs, runs the real
`get_lcm_function(..., targets="solve")` and compares *every* entry of *every* period's
value array (a) step-wise: reference Bellman backup applied to lcm's own V_{t+1}, and
(b) end-to-end: reference solution from scratch.
"""
from __future__ import annotations

import numpy as np

from mc import e1, family
from mc.explore import digest, outcome, violation

ID = "C01"
ENGINE = "E1"
RULE = (
    "all feature vectors within Hamming distance k of base model B0 (complete enumeration, canonical "
    "dedup); per model every parameter valuation of the alphabet, jit on (+off), every period, every grid "
    "state; a case is non-trivial if it is a supported model whose value arrays were compared and its "
    "observation digest (bytes of all value arrays) is distinct"
)
ASSUMPTIONS = [
    "reference model mc/refmodel.py (numpy float64, full Cartesian products) is the specification",
    "tolerance |a-b| <= 1e-9*(1+|b|); -inf/NaN patterns must agree exactly",
    "grids <= 6 points, <= 4 states, <= 4 choices, T <= 4; CPU, x64",
    "models outside the supported class (decided by the reference: transition into a filter-excluded "
    "state, state without feasible choice before the last period, transition leaving a log grid) are skipped",
]
BUDGET_S = {"quick": 1500, "thorough": 5400}


def BOUND(tier):
    return {
        "family": "Family_2(B0)" if tier == "quick" else "Family_2(B0) both jit modes + Family_3(B0) on interaction-prone features + Family_2 around the fully discrete and the stochastic base",
        "features": {k: len(v) for k, v in family.FEATURES.items()},
        "valuations": ["default", "perturbed(beta=0.95)"] + (["beta=0", "beta=1"] if tier == "thorough" else []),
    }


PRONE = ["filt", "e", "cc", "h", "cons", "wgrid", "k", "g"]


def cases(tier, seed):
    out = []
    seen = set()
    members, _ = e1.family_members(2)
    for fv, dev in members:
        jits = [True, False] if (tier == "thorough" or dev <= 1) else [True]
        out.append({"id": e1.fv_id(fv), "fv": fv, "jits": jits, "dev": dev, "seed": seed, "tier": tier})
        seen.add(e1.fv_id(fv))
    # explicit size letters: more periods than any family option, a fine grid (sizes beyond the structural alphabet)
    for extra in ({"T": 6}, {"T": 6, "filt": "grow"}, {"T": 6, "h": "ph"}, {"T": 7, "filt": "mix", "h": "hp"}, {"wgrid": "fine"}, {"wgrid": "fine", "k": "log", "T": 2}, {"T": 12, "cc": "none", "wgrid": "disc"}, {"T": 12, "uperiod": 1}):
        fv = family.normalise(dict(family.BASE, **extra))
        if fv is not None and e1.fv_id(fv) not in seen:
            seen.add(e1.fv_id(fv))
            out.append({"id": e1.fv_id(fv), "fv": fv, "jits": [True], "dev": len(extra), "seed": seed, "tier": tier})
    if tier == "thorough":
        groups = [e1.family_members(3, {k: family.FEATURES[k] for k in PRONE})[0]]
        # Family_2 around two further bases (fully discrete; stochastic without filter)
        for base_dev in ({"cc": "none", "wgrid": "disc"}, {"h": "hd", "filt": "none"}):
            groups.append(e1.family_members(2, {k: family.FEATURES[k] for k in PRONE + ["T", "aux", "trans", "order"]}, base=dict(family.BASE, **base_dev))[0])
        for members in groups:
            for fv, dev in members:
                i = e1.fv_id(fv)
                if i not in seen:
                    seen.add(i)
                    out.append({"id": i, "fv": fv, "jits": [True], "dev": dev, "seed": seed, "tier": tier})
    return out


def case_rank(case):
    return case["dev"]


def cost(case):
    fv = case["fv"]
    c = 1.0 + 0.5 * (len(case["jits"]) - 1)
    if fv["k"] != "none":
        c *= 2
    if fv["h"] != "none":
        c *= 1.5
    if fv["cc"] == "cl":
        c *= 1.5
    return c * fv["T"]


def compare(r, V, R, params_name, jit, viols, stage="solve"):
    """End-to-end + step-wise comparison; returns number of compared states."""
    n_states = 0
    if len(V) != r.T:
        viols.append(violation("n-arrays", stage, "LENGTH", f"{len(V)} arrays for T={r.T}", params=params_name, jit=jit))
        return 0
    for t in range(r.T):
        a = np.asarray(V[t])
        exp = r.to_lcm_layout(R[t], t)
        if a.shape != exp.shape:
            viols.append(violation("end-to-end", stage, "SHAPE", f"period {t}: shape {a.shape} expected {exp.shape}", params=params_name, jit=jit, period=t))
            return n_states
        ok = e1.refmodel.close(a, exp)
        n_states += a.size
        if not ok.all():
            idx = tuple(int(i) for i in np.argwhere(~ok)[0])
            viols.append(
                violation(
                    "end-to-end", stage, "VALUE",
                    f"period {t} index {idx}: lcm {a[idx]!r} reference {exp[idx]!r} ({int((~ok).sum())} of {a.size} entries differ)",
                    params=params_name, jit=jit, period=t, index=list(idx), observed=float(a[idx]), expected=float(exp[idx]),
                )
            )
            return n_states
    # step-wise conformance: reference backup applied to the implementation's own V_{t+1}
    for t in range(r.T - 1):
        try:
            nxt = r.from_lcm_layout(V[t + 1], t + 1)
        except ValueError as e:
            viols.append(violation("step-wise", stage, "SHAPE", str(e), params=params_name, jit=jit, period=t))
            return n_states
        exp = r.to_lcm_layout(r.backup(t, nxt), t)
        a = np.asarray(V[t])
        ok = e1.refmodel.close(a, exp)
        if not ok.all():
            idx = tuple(int(i) for i in np.argwhere(~ok)[0])
            viols.append(
                violation(
                    "step-wise", stage, "VALUE",
                    f"backup {t + 1}->{t} index {idx}: lcm {a[idx]!r} reference {exp[idx]!r}",
                    params=params_name, jit=jit, period=t, index=list(idx), observed=float(a[idx]), expected=float(exp[idx]),
                )
            )
            return n_states
    return n_states


def run_case(case):
    b = e1.Built(case["fv"], case["seed"])
    if not b.valid:
        return outcome(status="skipped", skip_reason="invalid-combo", nontrivial=False)
    valuations = [("default", b.params("default", 0.9)), ("perturbed", b.params("perturbed", 0.95))]
    if case["tier"] == "thorough":
        valuations += [("beta0", b.params("default", 0.0)), ("beta1", b.params("perturbed", 1.0))]
    viols = []
    states = transitions = traces = 0
    dig = []
    unsupported = None
    from lcm.entry_point import get_lcm_function

    if all(e1.reference(b.model, params)[2] for _, params in valuations):
        return outcome(status="skipped", skip_reason=e1.reference(b.model, valuations[0][1])[2], nontrivial=False)
    solvers = {}
    for jit in case["jits"]:
        try:
            solvers[jit], _ = get_lcm_function(b.model, targets="solve", debug_mode=False, jit=jit)
        except Exception as e:
            viols.append(violation("runs", "create", "EXC:" + type(e).__name__, f"get_lcm_function(jit={jit}): {e}"))
    Vjit = {}
    for pname, params in valuations:
        r, R, why = e1.reference(b.model, params)
        if why:
            unsupported = why
            continue
        for jit, solve in solvers.items():
            try:
                V = [np.asarray(v) for v in solve(params)]
            except Exception as e:
                viols.append(violation("runs", "solve", "EXC:" + type(e).__name__, f"solve(params={pname}, jit={jit}): {e}", params=pname, jit=jit))
                continue
            Vjit[(pname, jit)] = V
            dig.append(V)
            states += compare(r, V, R, pname, jit, viols)
            transitions += r.T
            traces += 1
        if (pname, True) in Vjit and (pname, False) in Vjit:
            for t, (x, y) in enumerate(zip(Vjit[(pname, True)], Vjit[(pname, False)])):
                if x.shape != y.shape or not e1.refmodel.close(x, y, 1e-12).all():
                    viols.append(violation("jit-independence", "solve", "VALUE", f"period {t}: jit=True and jit=False differ", params=pname, period=t))
                    break
    if unsupported and not traces and not viols:
        return outcome(status="skipped", skip_reason=unsupported, nontrivial=False)
    return outcome(
        status="violation" if viols else "ok",
        violations=viols,
        states=states,
        transitions=transitions,
        traces=traces,
        digest=digest(dig),
        nontrivial=traces > 0,
        sample={"model_source": b.text[-1500:]} if case["dev"] == 0 else None,
        counters={"unsupported_valuations": 1 if unsupported else 0},
    )


def replay_extra(case):
    b = e1.Built(case["fv"], case["seed"])
    return {"model_source": b.text if b.valid else None, "params_default": b.params("default") if b.valid else None}
