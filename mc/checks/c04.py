"""C04 - stochastic draws: specified probabilities, independent, seed-reproducible.

Engine E3 ("threshold identification").  A 2-label stochastic state whose transition depends
on (_period, g), where g is a constant discrete state with one distinct label per agent, makes
every (period, variable, agent) triple select ITS OWN row p(t, g).  The drawn label as a
function of p0 is a step function with one hidden threshold theta(seed, t, var, agent); 30
adaptive queries (bisection, all triples in parallel, one real simulate call per query)
identify every theta to 2^-30.  All clauses are then decided exactly, without statistics:
inverse-CDF consistency on a lattice of rows (incl. zero and degenerate rows), pairwise
distinctness of all thetas (no key reuse across agents, periods, variables, seeds),
invariance of theta under changes of other agents' data / parameters / the other variable's
array, same seed => identical frames, other seed => identical period 0.
"""
from __future__ import annotations

import itertools
import math

import numpy as np

from mc import family
from mc.explore import digest, outcome, violation

ID = "C04"
ENGINE = "E3"
RULE = (
    "one case per configuration (seed in {0,1,12345}, T in {2,3,4}, agents in {1,2,5,40}, stochastic variables in {1,2}, labels "
    "in {2,3}); inside: 30 bisection queries + lattice rows with denominators 4 + re-identification under 3 data changes, every "
    "query one real simulate call; states = (period, variable, agent) triples identified; transitions = simulate calls; "
    "finalize: thetas of the same configuration are distinct across seeds; auxiliary KS statistic"
)
ASSUMPTIONS = [
    "that theta is uniformly distributed over seeds is the contract of JAX's PRNG (trusted); the check proves lcm consumes one fresh draw per (period, variable, agent) through an exact inverse CDF of the right row",
    "auxiliary, non-deciding unless p < 1e-9: Kolmogorov distance of the recovered thetas from U[0,1]",
    "bounded to <= 40 agents, <= 4 periods, <= 2 stochastic variables, 3 seeds (10 thorough)",
]
BUDGET_S = {"quick": 1500, "thorough": 5400}
NQ = 30
SINGLE_OUTCOME_OK = False


def BOUND(tier):
    return {"seeds": [0, 1, 12345] if tier == "quick" else [0, 1, 2, 3, 5, 8, 13, 21, 12345, 99999], "T": [2, 3, 4], "agents": [1, 2, 5, 40], "variables": [1, 2], "labels": [2, 3], "queries": NQ}


def cases(tier, seed):
    out = []
    seeds = BOUND(tier)["seeds"]
    for sd in seeds:
        for T, n, nv in itertools.product((2, 3, 4), (1, 2, 5), (1, 2)):
            out.append({"id": f"L2-seed{sd}-T{T}-n{n}-v{nv}", "labels": 2, "sim_seed": sd, "T": T, "n": n, "nv": nv, "seed": seed})
        out.append({"id": f"L2-seed{sd}-T4-n40-v2", "labels": 2, "sim_seed": sd, "T": 4, "n": 40, "nv": 2, "seed": seed})
        out.append({"id": f"L3-seed{sd}-T3-n5-v1", "labels": 3, "sim_seed": sd, "T": 3, "n": 5, "nv": 1, "seed": seed})
        out.append({"id": f"L3-seed{sd}-T2-n2-v2", "labels": 3, "sim_seed": sd, "T": 2, "n": 2, "nv": 2, "seed": seed})
        # dependency order (g, _period): the period is NOT the leading axis of the transition array
        out.append({"id": f"L2-gp-seed{sd}-T3-n5-v2", "labels": 2, "sim_seed": sd, "T": 3, "n": 5, "nv": 2, "seed": seed, "dep_order": "gp"})
        out.append({"id": f"L2-gp-seed{sd}-T4-n2-v1", "labels": 2, "sim_seed": sd, "T": 4, "n": 2, "nv": 1, "seed": seed, "dep_order": "gp"})
        # THREE dependencies with unequal sizes (_period: T, g: 5, d: 2); the rows do not depend on d
        out.append({"id": f"L2-pgd-seed{sd}-T3-n5-v1", "labels": 2, "sim_seed": sd, "T": 3, "n": 5, "nv": 1, "seed": seed, "dep_order": "pgd"})
    return out


def cost(case):
    return case["T"] * (3 if case["n"] == 40 else 1) * case["nv"]


def build(T, n, nv, labels, dep_order="pg"):
    deps = {"pg": "_period, g", "gp": "g, _period", "pgd": "_period, g, d"}[dep_order]
    return _build(T, n, nv, labels, deps)


def _build(T, n, nv, labels, deps):
    L = [
        "def utility(h, g, d, a" + (", h2" if nv == 2 else "") + "):\n    return a * d * (h + 0.5) + 0.01 * g - 0.3 * d" + (" + 0.2 * h2 * (1 - d)" if nv == 2 else ""),
        "def next_g(g):\n    return g",
        f"@lcm.mark.stochastic\ndef next_h({deps}):\n    pass",
    ]
    funcs = ["utility", "next_g", "next_h"]
    states = [("h", f"D({labels})"), ("g", f"D({max(n, 2)})")]
    if nv == 2:
        L.append(f"@lcm.mark.stochastic\ndef next_h2({deps}):\n    pass")
        funcs.append("next_h2")
        states.append(("h2", f"D({labels})"))
    text = family.assemble(T, "\n\n".join(L), states, [("d", "D(2)")], funcs)
    return family.exec_model(text), text


class Oracle:
    """Black-box access to the real simulate: labels drawn at (t -> t+1) for every variable/agent."""

    def __init__(self, case):
        import jax.numpy as jnp
        from lcm.entry_point import get_lcm_function

        self.T, self.n, self.nv, self.labels = case["T"], case["n"], case["nv"], case["labels"]
        self.ng = max(self.n, 2)
        self.dep_order = case.get("dep_order", "pg")
        self.model, self.text = build(self.T, self.n, self.nv, self.labels, self.dep_order)
        self.vars = ["h", "h2"][: self.nv]
        self.solve, _ = get_lcm_function(self.model, targets="solve", debug_mode=False)
        self.sim, _ = get_lcm_function(self.model, targets="simulate", debug_mode=False)
        self.sim_seed = case["sim_seed"]
        self.calls = 0
        self.a = 1.3
        self.g_of_agent = np.arange(self.n)
        self.h0 = np.arange(self.n) % self.labels
        self.V = None

    def params(self, rows):
        """rows: dict var -> array (T, n_agents, labels): row used by agent i at period t."""
        import jax.numpy as jnp

        p = {"beta": 0.9, "utility": {"a": self.a}, "next_g": {}, "shocks": {}}
        for v in self.vars:
            p[f"next_{v}"] = {}
            arr = np.full((self.T, self.ng, self.labels), 1.0 / self.labels)
            for i in range(self.n):
                arr[:, self.g_of_agent[i], :] = rows[v][:, i, :]
            if self.dep_order == "gp":
                arr = np.transpose(arr, (1, 0, 2))
            elif self.dep_order == "pgd":
                arr = np.repeat(arr[:, :, None, :], 2, axis=2)  # same row for both values of the choice d
            p["shocks"][v] = jnp.asarray(arr)
        return p

    def draw(self, rows, seed=None, return_frame=False):
        """labels[var][t, i] drawn for the transition t -> t+1 (t = 0..T-2)."""
        import jax.numpy as jnp

        p = self.params(rows)
        if self.V is None:
            self.V = self.solve(p)
        init = {"h": jnp.asarray(self.h0), "g": jnp.asarray(self.g_of_agent)}
        if self.nv == 2:
            init["h2"] = jnp.asarray((self.h0 + 1) % self.labels)
        fr = self.sim(p, initial_states=init, vf_arr_list=self.V, seed=self.sim_seed if seed is None else seed)
        self.calls += 1
        out = {}
        for v in self.vars:
            col = fr[v].to_numpy().reshape(self.T, self.n)
            out[v] = col[1:]  # (T-1, n)
        return (out, fr) if return_frame else out


def rows2(p0, labels, family_="A"):
    """Row family supported on two labels: A = (p, 1-p[, 0]); B = (p, 0, 1-p)."""
    r = np.zeros(p0.shape + (labels,))
    r[..., 0] = p0
    r[..., 1 if family_ == "A" else 2] = 1 - p0
    return r


def identify(o: Oracle, family_="A"):
    """Bisection for every (var, t, i). Returns lo, hi arrays of shape (nv, T-1, n) and a consistency flag."""
    T1 = o.T - 1
    lo = np.zeros((o.nv, T1, o.n))
    hi = np.ones((o.nv, T1, o.n))
    for _ in range(NQ):
        mid = (lo + hi) / 2
        rows = {}
        for k, v in enumerate(o.vars):
            p0 = np.full((o.T, o.n), 0.5)
            p0[:T1] = mid[k]
            rows[v] = rows2(p0, o.labels, family_)
        lab = o.draw(rows)
        allowed = [0, 1] if family_ == "A" else [0, 2]  # the third label has probability exactly zero in every query row
        for k, v in enumerate(o.vars):
            if not np.isin(lab[v], allowed).all():
                t, i = [int(x) for x in np.argwhere(~np.isin(lab[v], allowed))[0]]
                raise ZeroProbabilityDrawn(f"variable {v}, period {t}->{t + 1}, agent {i}: label {int(lab[v][t, i])} drawn although its probability in the selected row {rows[v][t, i].tolist()} is 0")
            zero = lab[v] == 0
            hi[k] = np.where(zero, mid[k], hi[k])
            lo[k] = np.where(zero, lo[k], mid[k])
    return lo, hi


class ZeroProbabilityDrawn(Exception):
    pass


def run_case(case):
    o = Oracle(case)
    viols = []
    T1 = o.T - 1
    if T1 < 1:
        return outcome(status="skipped", skip_reason="T<2", nontrivial=False)
    try:
        lo, hi = identify(o, "A")
        theta = (lo + hi) / 2
        ntrip = theta.size
        # ---- 1/2: single threshold, direction fixed by the semantics, zero-probability labels never drawn
        lattice = [0.0, 0.25, 0.5, 0.75, 1.0]
        for p in lattice:
            rows = {v: rows2(np.full((o.T, o.n), p), o.labels, "A") for v in o.vars}
            lab = o.draw(rows)
            for k, v in enumerate(o.vars):
                exp0 = p >= hi[k]
                exp1 = p <= lo[k]
                got0 = lab[v] == 0
                bad = (exp0 & ~got0) | (exp1 & got0)
                allowed = np.isin(lab[v], [0, 1])  # label 2 has probability 0 in family A
                if (bad | ~allowed).any() and not viols:
                    t, i = [int(x) for x in np.argwhere(bad | ~allowed)[0]]
                    viols.append(violation("inverse-cdf", "lattice", "DRAW", f"variable {v}, period {t}->{t + 1}, agent {i}: row ({p}, {1 - p}) gave label {int(lab[v][t, i])}, but the identified threshold is in [{lo[k][t, i]:.9f}, {hi[k][t, i]:.9f}] (label 0 iff p0 >= theta)"))
        # ---- 3a: no reuse: thetas pairwise distinct within the configuration
        flat = np.sort(theta.reshape(-1))
        if flat.size > 1 and np.min(np.diff(flat)) < 2.0 ** -24 and not viols:
            j = int(np.argmin(np.diff(flat)))
            idx = [tuple(int(x) for x in a) for a in np.argwhere(np.abs(theta - flat[j]) < 2.0 ** -23)]
            viols.append(violation("independence", "distinct-thetas", "REUSE", f"the same uniform draw is used for (variable, period, agent) triples {idx[:4]} (theta = {flat[j]:.9f})"))
        # ---- 3b: theta is attached to (seed, period, variable, agent position), not to data
        if not viols and o.n in (2, 5):
            saved = (o.g_of_agent.copy(), o.a, o.h0.copy())
            changes = []
            if o.n >= 2:
                changes.append(("g labels permuted across agents", lambda: setattr(o, "g_of_agent", np.roll(o.g_of_agent, 1))))
            changes.append(("utility parameter changed (other decisions)", lambda: setattr(o, "a", -2.1)))
            changes.append(("own non-dependency state h changed", lambda: setattr(o, "h0", (o.h0 + 1) % o.labels)))
            for label, apply in changes:
                apply()
                o.V = None
                lo2, hi2 = identify(o, "A")
                o.g_of_agent, o.a, o.h0 = saved[0].copy(), saved[1], saved[2].copy()
                o.V = None
                if not np.allclose((lo2 + hi2) / 2, theta, atol=2.0 ** -26, rtol=0) and not viols:
                    k, t, i = [int(x) for x in np.argwhere(np.abs((lo2 + hi2) / 2 - theta) > 2.0 ** -26)[0]]
                    viols.append(violation("independence", "data-invariance", "THETA", f"{label}: threshold of (variable {o.vars[k]}, period {t}, agent {i}) moved from {theta[k, t, i]:.9f} to {((lo2 + hi2) / 2)[k, t, i]:.9f}"))
            if o.nv == 2 and not viols:
                # the other variable's array changes: identify h again while h2 reads constant rows
                rows_const = rows2(np.full((o.T, o.n), 0.9), o.labels, "A")
                lo3 = np.zeros((T1, o.n))
                hi3 = np.ones((T1, o.n))
                for _ in range(NQ):
                    mid = (lo3 + hi3) / 2
                    p0 = np.full((o.T, o.n), 0.5)
                    p0[:T1] = mid
                    lab = o.draw({"h": rows2(p0, o.labels, "A"), "h2": rows_const})
                    zero = lab["h"] == 0
                    hi3 = np.where(zero, mid, hi3)
                    lo3 = np.where(zero, lo3, mid)
                if not np.allclose((lo3 + hi3) / 2, theta[0], atol=2.0 ** -26, rtol=0):
                    viols.append(violation("independence", "other-variable", "THETA", "thresholds of h change when the transition array of h2 changes"))
        # ---- 3 labels: classify the sampler, then full-support rows
        undecided = 0
        if o.labels == 3 and not viols:
            loB, hiB = identify(o, "B")
            thetaB = (loB + hiB) / 2
            inverse_cdf = np.allclose(thetaB, theta, atol=2.0 ** -26, rtol=0)
            if inverse_cdf:
                for a, b in [(x / 4, y / 4) for x in range(5) for y in range(5 - x)]:
                    c = 1 - a - b
                    rows = {v: np.broadcast_to(np.array([a, b, c]), (o.T, o.n, 3)).copy() for v in o.vars}
                    lab = o.draw(rows)
                    for k, v in enumerate(o.vars):
                        exp = np.where(hi[k] <= a, 0, np.where((lo[k] >= a) & (hi[k] <= a + b), 1, np.where(lo[k] >= a + b, 2, -1)))
                        known = exp >= 0
                        bad = known & (lab[v] != exp)
                        zero_drawn = np.array([a, b, c])[lab[v].astype(int)] == 0
                        if (bad | zero_drawn).any() and not viols:
                            t, i = [int(x) for x in np.argwhere(bad | zero_drawn)[0]]
                            viols.append(violation("inverse-cdf", "three-labels", "DRAW", f"variable {v}, period {t}, agent {i}: row ({a}, {b}, {c}) gave label {int(lab[v][t, i])}, cumulative sums with theta={theta[k, t, i]:.9f} give {int(exp[t, i])}"))
            else:
                undecided = 1  # not an inverse-CDF sampler: only the pairwise families are decided
        # ---- 4: reproducibility and period 0
        rows = {v: rows2(np.full((o.T, o.n), 0.4), o.labels, "A") for v in o.vars}
        _, f1 = o.draw(rows, return_frame=True)
        _, f2 = o.draw(rows, return_frame=True)
        _, f3 = o.draw(rows, seed=o.sim_seed + 7, return_frame=True)
        if not f1.equals(f2) and not viols:
            viols.append(violation("reproducible", "same-seed", "FRAME", "two simulations with the same seed differ"))
        if not f1.loc[0].equals(f3.loc[0]) and not viols:
            viols.append(violation("reproducible", "period0", "FRAME", "changing the seed changes period-0 rows"))
        for v in o.vars:
            if not np.isin(f1[v].to_numpy(), np.arange(o.labels)).all() and not viols:
                viols.append(violation("labels", "grid", "DRAW", f"{v} takes values outside its grid"))
    except ZeroProbabilityDrawn as e:
        viols.append(violation("inverse-cdf", "zero-probability", "DRAW", str(e)))
        return outcome(status="violation", violations=viols, digest="zero", transitions=o.calls)
    except Exception as e:
        import traceback

        viols.append(violation("runs", "simulate", "EXC:" + type(e).__name__, str(e)[:300], traceback=traceback.format_exc()[-1200:]))
        return outcome(status="violation", violations=viols, digest="exc", transitions=o.calls)
    cfg = f"L{o.labels}-T{o.T}-n{o.n}-v{o.nv}-{o.dep_order}"
    return outcome(
        status="violation" if viols else "ok",
        violations=viols[:2],
        states=int(theta.size),
        transitions=o.calls,
        traces=o.calls,
        digest=digest(np.round(theta, 8)),
        thetas={"cfg": cfg, "sim_seed": case["sim_seed"], "theta": theta.reshape(-1).tolist()},
        counters={"three_label_full_support_undecided": undecided},
    )


def finalize(results):
    out = []
    groups = {}
    for r in results:
        th = r.get("thetas")
        if th:
            groups.setdefault(th["cfg"], []).append((th["sim_seed"], np.asarray(th["theta"]), r["case"]["id"]))
    for cfg, items in groups.items():
        # seed ignored: the same thresholds under two seeds
        for (s1, t1, c1), (s2, t2, c2) in itertools.combinations(items, 2):
            if t1.shape == t2.shape and np.any(np.abs(t1 - t2) < 2.0 ** -24):
                out.append((c2, violation("independence", "seeds", "REUSE", f"configuration {cfg}: seeds {s1} and {s2} share {int((np.abs(t1 - t2) < 2.0 ** -24).sum())} of {t1.size} thresholds")))
                break
    # auxiliary statistic on the largest configuration (all seeds pooled)
    for cfg, items in groups.items():
        allt = np.sort(np.concatenate([t for _, t, _ in items]))
        n = len(allt)
        if n >= 200:
            D = max(np.max(np.arange(1, n + 1) / n - allt), np.max(allt - np.arange(0, n) / n))
            p = 2 * math.exp(-2 * n * D * D)
            if p < 1e-9:
                out.append((items[0][2], violation("distribution", "ks", "KS", f"configuration {cfg}: recovered thresholds are not uniform on [0,1]: n={n}, Kolmogorov distance {D:.3f}, p~{p:.1e} (the probabilities are distorted monotonically)")))
    return out


def coverage_extra(results):
    th = [np.asarray(r["thetas"]["theta"]) for r in results if r.get("thetas")]
    allt = np.concatenate(th) if th else np.zeros(0)
    return {"thresholds_identified": int(allt.size), "threshold_precision": 2.0 ** -NQ, "theta_min_max": [float(allt.min()), float(allt.max())] if allt.size else None}
