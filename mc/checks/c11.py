"""C11 - the solution obeys the algebraic laws of finite-horizon dynamic programming.

Engine E1, metamorphic oracles between real executions (no reference values):
  affine      u -> a*u+b  =>  V'_t = a*V_t + b*sum_{k<T-t} beta^k
  beta0       with beta=0 the period-t values equal the last period of the horizon-(t+1) model
  stationary  period-free model: values j periods before the end are the same for every horizon
  degenerate  one-hot transition array == model with the corresponding deterministic lookup transition
"""
from __future__ import annotations

import inspect
import itertools
import re

import numpy as np

from mc import e1, family, refmodel
from mc.explore import digest, outcome, violation

ID = "C11"
ENGINE = "E1"
RULE = (
    "one case per (model, law); models = Family_1(B0) members (thorough: + the four upstream test models at full size for the "
    "affine and stationarity laws); affine: (a,b) in {(1,0),(2,0),(0.5,1),(3,-2)} x beta in {0,0.5,1,0.9}; beta0/stationary: all "
    "horizons T,T' in 1..4; degenerate: ALL one-hot arrays (cap 64); each (relation, period, grid state) is an oracle evaluation"
)
ASSUMPTIONS = ["no reference: both sides are lcm solutions", "1e-9 relative (a*V+b amplifies rounding by |a|+|b|)"]
BUDGET_S = {"quick": 1500, "thorough": 5400}
AB = [(1.0, 0.0), (2.0, 0.0), (0.5, 1.0), (3.0, -2.0)]
BETAS = [0.0, 0.5, 1.0, 0.9]
LAWS = ["affine", "beta0", "stationary", "degenerate"]


def BOUND(tier):
    return {"ab": AB if tier == "thorough" else AB[1:], "betas": BETAS if tier == "thorough" else [0.5, 1.0], "horizons": [1, 2, 3, 4], "onehot_cap": 64 if tier == "thorough" else 12, "upstream_models": tier == "thorough"}


def period_free(fv):
    return (
        fv["uperiod"] == 0 and fv["filt"] not in ("grow", "shrink", "mix") and fv["cons"] != "period" and fv["aux"] != "period"
        and fv["trans"] != "period" and fv["h"] not in ("ph", "hp", "dph")
    )


def cases(tier, seed):
    out = []
    for fv, dev in e1.family_members(1 if tier == "quick" else 2, None if tier == "quick" else {k: family.FEATURES[k] for k in ["filt", "e", "cc", "h", "cons", "wgrid", "k"]})[0]:
        i = e1.fv_id(fv)
        out.append({"id": f"{i}|affine", "fv": fv, "law": "affine", "seed": seed, "tier": tier})
        out.append({"id": f"{i}|beta0", "fv": fv, "law": "beta0", "seed": seed, "tier": tier})
        if period_free(fv):
            out.append({"id": f"{i}|stationary", "fv": fv, "law": "stationary", "seed": seed, "tier": tier})
        if fv["h"] != "none":
            out.append({"id": f"{i}|degenerate", "fv": fv, "law": "degenerate", "seed": seed, "tier": tier})
    # degenerate law for period-dependent transitions with _period not first and T = 4
    for extra in ({"h": "dph", "T": 4}, {"h": "hp", "T": 4}):
        fv = family.normalise(dict(family.BASE, **extra))
        out.append({"id": f"{e1.fv_id(fv)}|degenerate", "fv": fv, "law": "degenerate", "seed": seed, "tier": tier})
    # states without any feasible choice (value -inf, supported in one-period models): a*(-inf)+b = -inf
    for extra in ({}, {"e": 1}, {"filt": "none"}):
        fv = family.normalise(dict(family.BASE, cons="tight", T=1, **extra))
        out.append({"id": f"{e1.fv_id(fv)}|affine", "fv": fv, "law": "affine", "seed": seed, "tier": tier})
    if tier == "thorough":
        for name in ("iskhakov_et_al_2017", "iskhakov_et_al_2017_stripped_down", "iskhakov_et_al_2017_discrete"):
            out.append({"id": f"upstream-{name}|affine", "upstream": name, "law": "affine", "seed": seed})
    return out


def cost(case):
    return {"affine": 10, "beta0": 6, "stationary": 6, "degenerate": 30}[case["law"]]


def affine_source(src, a, b):
    """Rename utility -> _u0 and define utility = a*_u0 + b with the same signature."""
    m = re.search(r"def utility\(([^)]*)\):", src)
    args = m.group(1)
    names = [x.strip() for x in args.split(",") if x.strip()]
    src2 = src.replace("def utility(", "def _u0(", 1)
    src2 += f"\n\ndef utility({args}):\n    return {a!r} * _u0({', '.join(f'{n}={n}' for n in names)}) + {b!r}\n"
    return src2


def _solve_fv(fv, params_fn, src_transform=None, T=None):
    src, states, choices, funcs, P, shocks = family.make_source(fv)
    if src_transform:
        src = src_transform(src)
    text = family.assemble(T or fv["T"], src, states, choices, funcs)
    model = family.exec_model(text)
    params = params_fn(P, shocks)
    V, _, _ = e1.lcm_solve(model, params)
    return model, params, V


def _close(x, y, tol=1e-9, scale=1.0):
    x, y = np.asarray(x, dtype=np.float64), np.asarray(y, dtype=np.float64)
    if x.shape != y.shape:
        return np.zeros((), bool)
    with np.errstate(invalid="ignore"):
        return (x == y) | (np.isfinite(x) & np.isfinite(y) & (np.abs(x - y) <= tol * scale * (1 + np.abs(y))))


def run_case(case):
    if "upstream" in case:
        return _run_upstream(case)
    fv = case["fv"]
    seed = case["seed"]
    viols, cnt, traces, dig = [], 0, 0, []

    def pf(beta, variant="default"):
        return lambda P, shocks: e1.gen_params(P, shocks, seed, variant, beta)

    # supportedness (decided by the reference on the default valuation)
    b = e1.Built(fv, seed)
    _, _, why = e1.reference(b.model, b.params("default", 0.9))
    if why:
        return outcome(status="skipped", skip_reason=why, nontrivial=False)
    try:
        if case["law"] == "affine":
            for beta in (BETAS if case.get("tier") == "thorough" else [0.5, 1.0]):
                _, _, V = _solve_fv(fv, pf(beta))
                traces += 1
                dig.append(V)
                T = len(V)
                for a, bb in (AB if case.get("tier") == "thorough" else AB[1:]):
                    _, _, V2 = _solve_fv(fv, pf(beta), lambda s: affine_source(s, a, bb))
                    traces += 1
                    for t in range(T):
                        geo = sum(beta ** k for k in range(T - t))
                        exp = a * V[t] + bb * geo
                        ok = _close(V2[t], exp, scale=abs(a) + abs(bb) + 1)
                        cnt += int(np.size(exp))
                        if not ok.all():
                            j = np.argwhere(~np.atleast_1d(ok))[0]
                            viols.append(violation("affine-law", "compare", "VALUE", f"a={a} b={bb} beta={beta} period {t}: V'={np.asarray(V2[t]).reshape(-1)[:3].tolist()} expected a*V+b*geo={np.asarray(exp).reshape(-1)[:3].tolist()} (first differing index {j.tolist()})", a=a, b=bb, beta=beta, period=t))
                            break
                    if viols:
                        break
                if viols:
                    break
        elif case["law"] == "beta0":
            Tmax = 4 if fv["filt"] != "shrink" else 3
            _, _, V = _solve_fv(fv, pf(0.0), T=Tmax)
            traces += 1
            dig.append(V)
            # independent one-period reference (a consistently wrong solver satisfies the relational form)
            src0, st0, ch0, fu0, P0, sh0 = family.make_source(fv)
            m_ref = family.exec_model(family.assemble(Tmax, src0, st0, ch0, fu0))
            r_ref = refmodel.Ref(m_ref, pf(0.0)(P0, sh0))
            for t in range(Tmax):
                one = r_ref.to_lcm_layout(r_ref.backup(t, None), t)
                if np.shape(one) != np.shape(V[t]) or not refmodel.close(V[t], one).all():
                    viols.append(violation("beta0-law", "compare", "VALUE", f"beta=0, T={Tmax}: period {t} values differ from the one-period problem of that period evaluated by the reference", period=t))
                    break
                cnt += int(np.size(one))
            for t in range(Tmax):
                if viols:
                    break
                _, _, Vs = _solve_fv(fv, pf(0.9), T=t + 1)
                traces += 1
                ok = _close(V[t], Vs[t])
                cnt += int(np.size(V[t]))
                if not np.all(ok):
                    viols.append(violation("beta0-law", "compare", "VALUE", f"beta=0, T={Tmax}: period {t} values {np.asarray(V[t]).reshape(-1)[:3].tolist()} differ from the last period of the horizon-{t + 1} model {np.asarray(Vs[t]).reshape(-1)[:3].tolist()}", period=t))
                    break
        elif case["law"] == "stationary":
            sols = {}
            for T in (1, 2, 3, 4):
                _, _, sols[T] = _solve_fv(fv, pf(0.9, "perturbed"), T=T)
                traces += 1
            dig.append([sols[T] for T in sols])
            for T, T2 in itertools.combinations(sols, 2):
                for j in range(min(T, T2)):
                    x, y = sols[T][T - 1 - j], sols[T2][T2 - 1 - j]
                    ok = _close(x, y)
                    cnt += int(np.size(x))
                    if not np.all(ok):
                        viols.append(violation("stationarity-law", "compare", "VALUE", f"period-free model: values {j} periods before the end differ between horizons {T} and {T2}: {np.asarray(x).reshape(-1)[:3].tolist()} vs {np.asarray(y).reshape(-1)[:3].tolist()}", horizons=[T, T2], j=j))
                        break
                if viols:
                    break
        elif case["law"] == "degenerate":
            from mc.checks.c03 import onehot_arrays
            import jax.numpy as jnp

            src, states, choices, funcs, P, shocks = family.make_source(fv)
            stoch = list(shocks)
            per_var = [onehot_arrays(tuple(shocks[s]), 64 if case.get("tier") == "thorough" else 12)[0] for s in stoch]
            m = max(len(a) for a in per_var)
            for j in range(m):
                combo = [a[j % len(a)] for a in per_var]
                base = e1.gen_params(P, shocks, seed, "default", 0.9)
                base["shocks"] = {s: jnp.asarray(a) for s, a in zip(stoch, combo)}
                text = family.assemble(fv["T"], src, states, choices, funcs)
                model = family.exec_model(text)
                r, _, why2 = e1.reference(model, base)
                if why2:
                    continue
                V, _, _ = e1.lcm_solve(model, base)
                # deterministic twin: next_<s>(deps) = TABLE[deps]
                src_d = src
                extra = ""
                for s, a in zip(stoch, combo):
                    mdef = re.search(rf"@lcm\.mark\.stochastic\ndef next_{s}\(([^)]*)\):\n    pass", src_d)
                    deps = mdef.group(1)
                    tab = np.asarray(a).argmax(-1)
                    extra += f"\nTAB_{s} = jnp.asarray({tab.tolist()!r})\n"
                    src_d = src_d.replace(mdef.group(0), f"def next_{s}({deps}):\n    return TAB_{s}[{deps}]")
                text_d = family.assemble(fv["T"], extra + src_d, states, choices, funcs)
                model_d = family.exec_model(text_d)
                pd = {k: v for k, v in base.items() if k != "shocks"}
                Vd, _, _ = e1.lcm_solve(model_d, pd)
                traces += 2
                dig.append(V)
                for t in range(len(V)):
                    ok = _close(V[t], Vd[t])
                    cnt += int(np.size(V[t]))
                    if not np.all(ok):
                        viols.append(violation("degenerate-law", "compare", "VALUE", f"one-hot arrays {[np.asarray(a).reshape(-1, a.shape[-1]).argmax(1).tolist() for a in combo]}: period {t} differs from the deterministic-lookup model: {np.asarray(V[t]).reshape(-1)[:3].tolist()} vs {np.asarray(Vd[t]).reshape(-1)[:3].tolist()}", period=t))
                        break
                if viols:
                    break
            if len(stoch) >= 2 and not viols:
                # PARTIALLY degenerate: only the first stochastic state has one-hot rows, supplied as an INTEGER
                # array; the others keep generic fractional rows.  Twin: first state deterministic, others stochastic.
                base = e1.gen_params(P, shocks, seed, "default", 0.9)
                first = stoch[0]
                a = per_var[0][min(1, len(per_var[0]) - 1)]
                base["shocks"] = dict(base["shocks"])
                base["shocks"][first] = jnp.asarray(np.asarray(a).astype(np.int64))
                model = family.exec_model(family.assemble(fv["T"], src, states, choices, funcs))
                _, _, why2 = e1.reference(model, {**base, "shocks": {**base["shocks"], first: jnp.asarray(a)}})
                if not why2:
                    V, _, _ = e1.lcm_solve(model, base)
                    mdef = re.search(rf"@lcm\.mark\.stochastic\ndef next_{first}\(([^)]*)\):\n    pass", src)
                    deps = mdef.group(1)
                    tab = np.asarray(a).argmax(-1)
                    src_d = src.replace(mdef.group(0), f"def next_{first}({deps}):\n    return TAB_{first}[{deps}]")
                    model_d = family.exec_model(family.assemble(fv["T"], f"\nTAB_{first} = jnp.asarray({tab.tolist()!r})\n" + src_d, states, choices, funcs))
                    pd = {k: v for k, v in base.items() if k != "shocks"}
                    pd["shocks"] = {k: v for k, v in base["shocks"].items() if k != first}
                    Vd, _, _ = e1.lcm_solve(model_d, pd)
                    traces += 2
                    for t in range(len(V)):
                        ok = _close(V[t], Vd[t])
                        cnt += int(np.size(V[t]))
                        if not np.all(ok):
                            viols.append(violation("degenerate-law", "compare", "VALUE", f"only {first} degenerate (integer one-hot array {tab.tolist()}), other stochastic states generic: period {t} differs from the model with deterministic next_{first}", period=t))
                            break
    except Exception as e:
        import traceback

        viols.append(violation("runs", "solve", "EXC:" + type(e).__name__, f"{case['law']}: {str(e)[:300]}", traceback=traceback.format_exc()[-1500:]))
    if traces == 0 and not viols:
        return outcome(status="skipped", skip_reason="no-supported-instance", nontrivial=False)
    return outcome(status="violation" if viols else "ok", violations=viols[:2], states=cnt, transitions=traces, traces=traces, digest=digest(dig), nontrivial=cnt > 0)


def _run_upstream(case):
    """Affine law on the upstream test models at full size (grids 100 x 500)."""
    import sys

    sys.path.insert(0, "/repo")
    from tests.test_models import get_model_config
    from lcm.entry_point import get_lcm_function

    viols, cnt, traces, dig = [], 0, 0, []
    T = 3
    model = get_model_config(case["upstream"], n_periods=T)
    defaults = {"disutility_of_work": 0.5, "interest_rate": 0.05, "wage": 10.0}
    for beta in (0.0, 0.95):
        solve, tpl = get_lcm_function(model, targets="solve", debug_mode=False)
        params = {k: ({p: defaults[p] for p in v} if isinstance(v, dict) else v) for k, v in tpl.items()}
        params["beta"] = beta
        V = [np.asarray(v) for v in solve(params)]
        traces += 1
        dig.append([v[..., :5] for v in V])
        for a, bb in AB[1:]:
            u0 = model.functions["utility"]
            sig = inspect.signature(u0)

            def u2(*args, _a=a, _b=bb, **kwargs):
                return _a * u0(*args, **kwargs) + _b

            u2.__signature__ = sig
            m2 = model.replace(functions={**model.functions, "utility": u2})
            solve2, _ = get_lcm_function(m2, targets="solve", debug_mode=False)
            V2 = [np.asarray(v) for v in solve2(params)]
            traces += 1
            for t in range(T):
                geo = sum(beta ** k for k in range(T - t))
                exp = a * V[t] + bb * geo
                ok = _close(V2[t], exp, scale=abs(a) + abs(bb) + 1)
                cnt += int(exp.size)
                if not ok.all():
                    viols.append(violation("affine-law", "compare", "VALUE", f"{case['upstream']}: a={a} b={bb} beta={beta} period {t}: {int((~ok).sum())} of {ok.size} entries violate V'=a*V+b*geo"))
                    break
            if viols:
                break
        if viols:
            break
    return outcome(status="violation" if viols else "ok", violations=viols, states=cnt, transitions=traces, traces=traces, digest=digest(dig))
