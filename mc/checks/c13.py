"""C13 - the simulation result is a complete, correctly indexed panel.

Engine E1/E3: ALL 64 subsets of six additional targets on three base models x agents in
{1,2,5} x T in {1..4}; on every Family_1 model the empty set, the full set and every
singleton.  Every row, every column.
"""
from __future__ import annotations

import itertools

import numpy as np

from mc import e1, family
from mc.explore import digest, outcome, violation

ID = "C13"
ENGINE = "E1"
RULE = (
    "cases = (base model in {B0+aux=chain, fully discrete, stochastic}) x T in 1..4 x n_agents in {1,2,5}, each with ALL "
    "64 subsets of the target alphabet {utility, inc, net, constraint, next_s, next_w}; plus every Family_1 model with "
    "{empty, full, singletons}; every (row, column) is an oracle evaluation; distinct by digest of the frames"
)
ASSUMPTIONS = ["target columns are compared with the reference resolver (mc/refmodel.Ref.ev) at the row's states, choices, period and parameters; 1e-12"]
BUDGET_S = {"quick": 1500, "thorough": 5400}
BASES = {
    "B0chain": {"aux": "chain"},
    "B1discrete": {"aux": "chain", "cc": "none", "wgrid": "disc"},
    "B2stochastic": {"aux": "chain", "h": "hd", "filt": "none"},
}


def BOUND(tier):
    return {"bases": BASES, "T": [1, 2, 3, 4], "agents": [1, 2, 5], "target_subsets": "all 64 on bases; empty/full/singletons on Family_1"}


def cases(tier, seed):
    out = []
    for bname, dev in BASES.items():
        for T in (1, 2, 3, 4):
            for n in (1, 2, 5):
                fv = dict(family.BASE)
                fv.update(dev)
                fv["T"] = T
                out.append({"id": f"{bname}-T{T}-n{n}", "fv": fv, "n": n, "subsets": "all", "seed": seed, "dev": 0})
    # odd variable names (first characters drawn from "next_"; a state literally called `value`)
    out.append({"id": "odd-state_names_start_with_next_letters", "odd": "state_names_start_with_next_letters", "fv": dict(family.BASE), "n": 3, "subsets": "few", "seed": seed, "dev": 1})
    out.append({"id": "odd-state_named_value", "odd": "state_named_value", "fv": dict(family.BASE), "n": 3, "subsets": "few", "seed": seed, "dev": 1})
    # non-broadcast-safe auxiliary function as target: the target columns must still be row-wise correct
    out.append({"id": "fam-B0+aux=reduce", "fv": dict(family.BASE, aux="reduce"), "n": 3, "subsets": "few", "seed": seed, "dev": 1, "skip_chain": True})
    # targets that depend on the period only (agent-invariant): alone, together, and next to agent-dependent ones
    for T_, n_ in ((4, 3), (3, 3), (2, 5), (3, 1)):
        out.append({"id": f"fam-B0+aux=age-T{T_}-n{n_}", "fv": dict(family.BASE, aux="age", T=T_), "n": n_, "subsets": "few", "seed": seed, "dev": 1, "pairs": True})
    members = e1.family_members(1 if tier == "quick" else 2)[0]
    for fv, dev in members:
        out.append({"id": "fam-" + e1.fv_id(fv), "fv": fv, "n": 3, "subsets": "few", "seed": seed, "dev": dev})
    return out


def case_rank(case):
    return case["dev"] + (0 if case["subsets"] == "all" else 1)


def cost(case):
    return (64 if case["subsets"] == "all" else 8) * case["fv"]["T"]


def target_alphabet(r):
    al = ["utility"]
    for f in r.funcs:
        if f in ("utility",) or f.endswith("_filter"):
            continue
        if f.startswith("next_"):
            if f.removeprefix("next_") in r.stochastic:
                continue
        al.append(f)
    return al


def run_case(case):
    import jax.numpy as jnp
    from lcm.entry_point import get_lcm_function

    if case.get("odd"):
        from mc.checks.c03 import _Odd

        b = _Odd(case["odd"], 3)
    else:
        b = e1.Built(case["fv"], case["seed"])
    if not b.valid:
        return outcome(status="skipped", skip_reason="invalid-combo", nontrivial=False)
    params = b.params("default")
    r, R, why = e1.reference(b.model, params)
    if why:
        return outcome(status="skipped", skip_reason=why, nontrivial=False)
    viols, cnt, traces, dig = [], 0, 0, []
    try:
        V, _, _ = e1.lcm_solve(b.model, params)
        sim, _ = get_lcm_function(b.model, targets="simulate", debug_mode=False)
    except Exception as e:
        return outcome(status="violation", violations=[violation("runs", "create", "EXC:" + type(e).__name__, str(e)[:400])], digest="exc")
    init_all, _ = e1.initial_states(r, R[0], offgrid=True)
    n_all = len(next(iter(init_all.values())))
    n = case["n"]
    pick = [(j * 7 + 1) % n_all for j in range(n)]
    init = {s: v[pick] for s, v in init_all.items()}
    jinit = e1.to_jax(init)
    alphabet = target_alphabet(r)
    if case["subsets"] == "all":
        base6 = [t for t in ["utility", "inc", "net", "c_constraint", "d_constraint", "next_s", "next_w"] if t in alphabet][:6]
        subsets = [list(c) for k in range(len(base6) + 1) for c in itertools.combinations(base6, k)]
    else:
        subsets = [[], list(alphabet)] + [[t] for t in alphabet]
        if case.get("pairs"):
            subsets += [list(c) for c in itertools.combinations(alphabet, 2)]
    T = r.T
    Vj = [jnp.asarray(v) for v in V]
    # legal input: on-grid values of a continuous state given as an INTEGER array; the panel must be the same
    int_states = [s for s in r.cont_states if np.all(r.grids[s] == np.rint(r.grids[s]))]
    if int_states and case["subsets"] == "few":
        init_g, _ = e1.initial_states(r, R[0], offgrid=False)
        n_g = len(next(iter(init_g.values())))
        pk = [(j * 5 + 1) % n_g for j in range(n)]
        ig = {s: v[pk] for s, v in init_g.items()}
        try:
            fr_f = sim(params, initial_states=e1.to_jax(ig), vf_arr_list=Vj, additional_targets=alphabet)
            fr_i = sim(params, initial_states={s: (jnp.asarray(v.astype(np.int64)) if s in int_states else jnp.asarray(v)) for s, v in ig.items()}, vf_arr_list=Vj, additional_targets=alphabet)
            traces += 2
            cnt += fr_f.size
            a, b2 = fr_f.to_numpy(dtype=np.float64), fr_i[list(fr_f.columns)].to_numpy(dtype=np.float64)
            if a.shape != b2.shape or not np.allclose(a, b2, rtol=1e-12, atol=1e-12, equal_nan=True):
                bad = [c for c in fr_f.columns if not np.allclose(fr_f[c].to_numpy(dtype=np.float64), fr_i[c].to_numpy(dtype=np.float64), rtol=1e-12, atol=1e-12, equal_nan=True)]
                viols.append(violation("panel", "simulate", "FRAME", f"integer-typed initial values of {int_states}: columns {bad} differ from the panel obtained with float-typed initial values"))
        except Exception as e:
            viols.append(violation("runs", "simulate", "EXC:" + type(e).__name__, f"integer-typed initial states: {str(e)[:300]}"))
    for targets in subsets:
        if viols:
            break
        tag = f"targets {targets}"
        try:
            fr = sim(params, initial_states=jinit, vf_arr_list=Vj, additional_targets=targets if targets else None)
        except Exception as e:
            viols.append(violation("runs", "simulate", "EXC:" + type(e).__name__, f"{tag}: {str(e)[:300]}"))
            break
        traces += 1
        dig.append(fr.to_numpy())
        problems = []
        if len(fr) != T * n:
            problems.append(f"{len(fr)} rows, expected {T}*{n}")
        else:
            exp_index = [(t, i) for t in range(T) for i in range(n)]
            if list(fr.index.names) != ["period", "initial_state_id"] or [tuple(x) for x in fr.index.tolist()] != exp_index:
                problems.append(f"index is not the period-major product (names {list(fr.index.names)})")
            want_cols = ["value", *r.choices, *r.states, "_period", *targets]
            if sorted(fr.columns) != sorted(want_cols) or len(set(fr.columns)) != len(fr.columns):
                problems.append(f"columns {list(fr.columns)} expected {want_cols}")
            else:
                per = np.asarray(fr["_period"].values)
                if not np.array_equal(per, np.repeat(np.arange(T), n)):
                    problems.append(f"_period column {per.tolist()}")
                # row (t, i) is agent i: period-0 rows are the supplied agents, in order
                for s in r.states:
                    if not np.array_equal(np.asarray(fr.loc[0][s].values, dtype=np.float64), np.asarray(init[s], dtype=np.float64)):
                        problems.append(f"period-0 column {s} is not the supplied batch in order")
                # deterministic chain: row (t+1, i) continues row (t, i)
                for t in range(T - 1 if not case.get("skip_chain") else 0):  # (K5: chain not checked for aux=reduce)
                    a, bb = fr.loc[t], fr.loc[t + 1]
                    env = {c: np.asarray(a[c].values) for c in r.states + r.choices}
                    for s in r.states:
                        if s in r.stochastic:
                            continue
                        expn = np.broadcast_to(np.asarray(r.ev(f"next_{s}", env, t, {})), (n,))
                        if not np.allclose(np.asarray(bb[s].values, dtype=np.float64), expn.astype(np.float64), rtol=1e-12, atol=1e-12):
                            problems.append(f"row (t+1,i) does not continue row (t,i) for state {s} at t={t}")
                # target columns equal the model function at the row
                for tg in targets:
                    col = np.asarray(fr[tg].values, dtype=np.float64)
                    exp = np.empty(T * n)
                    for t in range(T):
                        sub = fr.loc[t]
                        env = {c: np.asarray(sub[c].values) for c in r.states + r.choices}
                        exp[t * n : (t + 1) * n] = np.broadcast_to(np.asarray(r.ev(tg, env, t, {}), dtype=np.float64), (n,))
                    cnt += T * n
                    if not np.allclose(col, exp, rtol=1e-12, atol=1e-12):
                        j = int(np.argwhere(~np.isclose(col, exp, rtol=1e-12, atol=1e-12))[0][0])
                        problems.append(f"target column {tg}: row {j} (period {j // n}, agent {j % n}) is {col[j]!r}, model function gives {exp[j]!r}")
                cnt += T * n * (len(r.states) + len(r.choices) + 2)
                if not targets and not problems and not case.get("skip_chain"):
                    # the value and choice columns of row (t, i) belong to agent i in period t:
                    # C02's row oracle on the reported states
                    Vfull = [r.from_lcm_layout(v, t) for t, v in enumerate(V)]
                    probs, _, _ = e1.check_rows(r, fr, Vfull)
                    if probs and not (r.touched_excluded or r.left_log_range):
                        p0 = probs[0]
                        problems.append(f"row (period {p0[0]}, agent {p0[1]}): value/choice columns do not describe this agent: {p0[2]} {p0[3]}")
        if problems:
            viols.append(violation("panel", "simulate", "FRAME", f"{tag}, {n} agents, T={T}: " + "; ".join(problems[:3])))
            break
    return outcome(status="violation" if viols else "ok", violations=viols, states=cnt, transitions=traces * T, traces=traces, digest=digest(dig), nontrivial=traces > 0)


def replay_extra(case):
    b = e1.Built(case["fv"], case["seed"])
    return {"model_source": b.text if b.valid else None}
