"""C03 - simulated states follow the model's law of motion.

Engine E1: every model of the family is simulated with all in-space grid states (+ off-grid
copies) as agents; every agent and every consecutive period pair is checked: period-0
columns equal the supplied arrays exactly, deterministic states equal the reference
evaluation of the transition function at the agent's own row, stochastic states are grid
labels with positive probability in the row selected by the agent's own variables.  With
the *one-hot identifying arrays* (all of them, up to a cap) the next label is a
deterministic function of the selected row, so row selection is decided exactly.
"""
from __future__ import annotations

import inspect
import itertools

import numpy as np

from mc import e1, family
from mc.explore import digest, outcome, violation

ID = "C03"
ENGINE = "E1"
RULE = (
    "Family_1(B0) + Family_2 on the interaction-prone features; agents = all in-space grid states + off-grid copies; "
    "seeds {0,1,12345}; stochastic models additionally ALL one-hot transition arrays (cap 64 for deviation <= 1, 5 "
    "otherwise in the quick tier) and an array with zero entries; every (agent, period pair, state variable) is an "
    "oracle evaluation; distinct by digest of the simulated frames"
)
ASSUMPTIONS = ["initial-state dtype alphabet: float64 for all states; additionally int64 arrays for continuous states whose grid nodes are integral", "reference resolver mc/refmodel.Ref.ev evaluates transition functions by name", "integers exact, floats 1e-12"]
BUDGET_S = {"quick": 1500, "thorough": 7200}
PRONE = ["filt", "e", "cc", "h", "cons", "wgrid", "trans", "aux"]


def BOUND(tier):
    return {"family": "Family_1 + Family_2|prone", "prone": PRONE, "seeds": [0, 1, 12345], "onehot_cap": {"dev<=1": 64, "dev2": 5 if tier == "quick" else 64}}


def cases(tier, seed):
    out, seen = [], set()
    for members in (e1.family_members(1)[0], e1.family_members(2, {k: family.FEATURES[k] for k in (PRONE if tier == "quick" else list(family.FEATURES))})[0]):
        for fv, dev in members:
            i = e1.fv_id(fv)
            if i not in seen:
                seen.add(i)
                out.append({"id": i, "fv": fv, "dev": dev, "seed": seed, "tier": tier})
    # explicit members: period-dependent stochastic transitions with more periods than labels of the other dependency
    for extra in ({"h": "hp", "T": 4}, {"h": "dph", "T": 4}, {"h": "ph", "T": 4}):
        fv = family.normalise(dict(family.BASE, **extra))
        i = e1.fv_id(fv)
        if i not in seen:
            seen.add(i)
            out.append({"id": i, "fv": fv, "dev": 2, "seed": seed, "tier": tier})
    # a state that is literally called `value` (the name of the value column of the result frame)
    out.append({"id": "odd-state-named-value", "odd": "state_named_value", "fv": dict(family.BASE), "dev": 1, "seed": seed, "tier": tier})
    # explicit members with a non-broadcast-safe auxiliary function in the ancestry of next_w (K5)
    for extra in ({}, {"filt": "none"}, {"T": 2}):
        fv = family.normalise(dict(family.BASE, aux="reduce", **extra))
        i = e1.fv_id(fv)
        if i not in seen:
            seen.add(i)
            out.append({"id": i, "fv": fv, "dev": 1 + len(extra), "seed": seed, "tier": tier})
    return out


def case_rank(case):
    return case["dev"]


def cost(case):
    fv = case["fv"]
    return fv["T"] * (8 if fv["h"] != "none" else 1) * (2 if fv["k"] != "none" else 1)


def onehot_arrays(shape, cap):
    """All arrays of `shape` whose rows (last axis) are one-hot; deterministic order, capped."""
    nrows = int(np.prod(shape[:-1]))
    k = shape[-1]
    out = []
    # start with the arrays that give distinct targets to neighbouring rows
    for targets in itertools.product(range(k), repeat=nrows):
        a = np.zeros((nrows, k))
        a[np.arange(nrows), list(targets)] = 1.0
        out.append(a.reshape(shape))
    # order: most "identifying" first (many distinct neighbouring targets)
    out.sort(key=lambda a: -int((np.diff(a.reshape(nrows, k).argmax(1)) != 0).sum()))
    return out[:cap], len(out)


def check_frame(r, fr, init, params, viols, tag):
    """Law of motion for every agent and period pair. Returns number of oracle evaluations."""
    T = r.T
    n = len(next(iter(init.values())))
    cnt = 0
    sub0 = fr.loc[0]
    for s in r.states:
        cnt += n
        col = np.asarray(sub0[s].values)
        if col.shape != np.asarray(init[s]).shape or not np.array_equal(col.astype(np.float64), np.asarray(init[s], dtype=np.float64)):
            viols.append(violation("period0-states", "simulate", "ROW", f"{tag}: period-0 column {s} differs from the supplied initial states"))
            return cnt
    for t in range(T - 1):
        a, b = fr.loc[t], fr.loc[t + 1]
        env = {c: np.asarray(a[c].values) for c in r.states + r.choices}
        for s in r.states:
            new = np.asarray(b[s].values)
            cnt += n
            if s in r.stochastic:
                g = r.grids[s]
                on_grid = np.isin(new, g)
                if not on_grid.all():
                    i = int(np.argwhere(~on_grid)[0][0])
                    viols.append(violation("stochastic-label", "simulate", "ROW", f"{tag}: period {t + 1} agent {i}: {s}={new[i]!r} is not a grid label"))
                    return cnt
                deps = list(inspect.signature(r.funcs[f"next_{s}"]).parameters)
                arr = np.asarray(params["shocks"][s], dtype=np.float64)
                ix = tuple((np.full(n, t) if d == "_period" else env[d].astype(np.int64)) for d in deps)
                p = arr[ix + (new.astype(np.int64),)]
                if not (p > 0).all():
                    i = int(np.argwhere(~(p > 0))[0][0])
                    sel = {d: (t if d == "_period" else int(env[d][i])) for d in deps}
                    viols.append(violation("stochastic-row", "simulate", "ROW", f"{tag}: period {t}->{t + 1} agent {i}: next {s}={int(new[i])} has probability 0 in the row selected by {sel}: {arr[tuple(x[i] for x in ix)].tolist()}"))
                    return cnt
            else:
                exp = np.broadcast_to(np.asarray(r.ev(f"next_{s}", env, t, {})), (n,))
                if r.kind[s] == "DiscreteGrid":
                    ok = new.astype(np.float64) == exp.astype(np.float64)
                else:
                    ok = np.abs(new - exp) <= 1e-12 * (1 + np.abs(exp))
                if not ok.all():
                    i = int(np.argwhere(~ok)[0][0])
                    row = {c: float(env[c][i]) for c in env}
                    viols.append(violation("law-of-motion", "simulate", "ROW", f"{tag}: period {t}->{t + 1} agent {i}: {s}={new[i]!r} but next_{s}({row}, _period={t}) = {exp[i]!r}"))
                    return cnt
    return cnt


class _Odd:
    valid = True

    def __init__(self, odd, T):
        from mc.checks import c12

        self.text = c12.odd_source(odd, T)
        self.model = family.exec_model(self.text)
        self.fv = dict(family.BASE, T=T)

    def params(self, variant="default", beta=0.9):
        p = {"beta": beta}
        for f in self.model.functions:
            p[f] = {"a": 1.3} if f == "utility" else {}
        return p


def run_case(case):
    b = _Odd(case["odd"], 3) if case.get("odd") else e1.Built(case["fv"], case["seed"])
    if not b.valid:
        return outcome(status="skipped", skip_reason="invalid-combo", nontrivial=False)
    viols, cnt, traces, dig = [], 0, 0, []
    params = b.params("default")
    r, R, why = e1.reference(b.model, params)
    if why:
        return outcome(status="skipped", skip_reason=why, nontrivial=False)
    try:
        V, _, solve = e1.lcm_solve(b.model, params)
    except Exception as e:
        return outcome(status="violation", violations=[violation("runs", "solve", "EXC:" + type(e).__name__, str(e)[:400])], digest="exc")
    init, _ = e1.initial_states(r, R[0], offgrid=True)
    from lcm.entry_point import get_lcm_function

    sim, _ = get_lcm_function(b.model, targets="simulate", debug_mode=False)
    import jax.numpy as jnp

    jinit = e1.to_jax(init)
    seeds = ([0, 1, 12345] if (case["dev"] <= 1 or case["tier"] == "thorough") else [0, 12345]) if r.stochastic else [0]
    for sd in seeds:
        try:
            fr = sim(params, initial_states=jinit, vf_arr_list=[jnp.asarray(v) for v in V], seed=sd)
        except Exception as e:
            viols.append(violation("runs", "simulate", "EXC:" + type(e).__name__, str(e)[:400]))
            break
        traces += 1
        dig.append(fr.to_numpy())
        cnt += check_frame(r, fr, init, params, viols, f"seed {sd}")
    # legal input: on-grid initial values of a continuous state supplied as an INTEGER array
    int_states = [s for s in r.cont_states if np.all(r.grids[s] == np.rint(r.grids[s]))]
    if int_states and not viols:
        init_g, _ = e1.initial_states(r, R[0], offgrid=False)
        jint = {s: (jnp.asarray(v.astype(np.int64)) if (s in int_states or r.kind[s] == "DiscreteGrid") else jnp.asarray(v)) for s, v in init_g.items()}
        try:
            fr = sim(params, initial_states=jint, vf_arr_list=[jnp.asarray(v) for v in V], seed=3)
            traces += 1
            dig.append(fr.to_numpy())
            cnt += check_frame(r, fr, init_g, params, viols, f"integer-typed initial {int_states}")
        except Exception as e:
            viols.append(violation("runs", "simulate", "EXC:" + type(e).__name__, f"integer-typed initial states: {str(e)[:300]}"))
    n_onehot = 0
    if r.stochastic and not viols:
        cap = 64 if (case["dev"] <= 1 or case["tier"] == "thorough") else 5
        per_var = []
        for s in r.stochastic:
            arrs, total = onehot_arrays(tuple(np.asarray(params["shocks"][s]).shape), cap)
            per_var.append(arrs)
        # joint enumeration: vary one variable's array at a time through all of its arrays,
        # the others cycle (all pairs are covered when there is a single stochastic variable)
        combos = []
        m = max(len(a) for a in per_var)
        for j in range(m):
            combos.append([a[j % len(a)] for a in per_var])
        # an array with zero entries (not one-hot)
        zer = []
        for s in r.stochastic:
            x = np.array(params["shocks"][s], dtype=np.float64)
            # zero entry in the MIDDLE label when there are three (a zero between positive entries)
            z = 1 if x.shape[-1] >= 3 else 0
            x[..., z] = np.where(np.arange(x[..., z].size).reshape(x[..., z].shape) % 2 == 0, 0.0, x[..., z])
            zer.append(x / x.sum(-1, keepdims=True))
        combos.append(zer)
        for ci, combo in enumerate(combos):
            p2 = dict(params)
            p2["shocks"] = {s: jnp.asarray(a) for s, a in zip(r.stochastic, combo)}
            r2, R2, why2 = e1.reference(b.model, p2)
            if why2:
                continue
            try:
                V2 = solve(p2)
                fr = sim(p2, initial_states=jinit, vf_arr_list=V2, seed=ci)
            except Exception as e:
                viols.append(violation("runs", "simulate", "EXC:" + type(e).__name__, f"one-hot array #{ci}: {str(e)[:300]}"))
                break
            traces += 1
            n_onehot += 1
            dig.append(fr.to_numpy())
            cnt += check_frame(r2, fr, init, p2, viols, f"transition array #{ci} {[np.asarray(a).reshape(-1, a.shape[-1]).argmax(1).tolist() for a in combo]}")
            if viols:
                break
    return outcome(
        status="violation" if viols else "ok",
        violations=viols[:3],
        states=cnt,
        transitions=traces * (r.T - 1),
        traces=traces,
        digest=digest(dig),
        nontrivial=cnt > 0,
        counters={"onehot_arrays": n_onehot, "stochastic_models": 1 if r.stochastic else 0},
    )


def replay_extra(case):
    b = e1.Built(case["fv"], case["seed"])
    return {"model_source": b.text if b.valid else None}
