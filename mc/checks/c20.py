"""C20 - extreme-value aggregation of choice values is an exact, stable log-sum-exp.

Engine E2: all arrays over the value alphabet {-1e6,-3,0,1e-3,2,1e6} for every shape with
<= 5 cells (and structured arrays for larger shapes) x all non-empty choice-axis subsets x
all contiguous segmentations x scales {1e-3,0.1,1,10,1e3}; reference = max-shifted
log-sum-exp in numpy.longdouble.
"""
from __future__ import annotations

import itertools

import numpy as np

from mc.explore import digest, outcome, violation

ID = "C20"
ENGINE = "E2"
ALPHA = [-1e6, -3.0, 0.0, 1e-3, 2.0, 1e6]
SCALES = [1e-3, 0.1, 1.0, 10.0, 1e3]
SMALL_SCALES = [1e-3, 1e-4, 1e-5, 1e-6]
SHIFTS = [-1e6, -1.0, 1e6]
RULE = (
    "one case per (layout: axis shape + choice-axis subset | rows + contiguous segmentation [+ trailing choice axis]); "
    "inside: ALL arrays over the 6-value alphabet (shapes <= 5 cells; 1296 structured arrays otherwise) x 5 scales "
    "(+4 small scales, 3 shifts); each (array, scale) is an oracle evaluation against a longdouble reference; "
    "distinct by digest of the results"
)
ASSUMPTIONS = ["numpy.longdouble (80-bit) max-shifted log-sum-exp as reference; tolerance 1e-9 relative", "value magnitudes <= 1e6, scales in [1e-6, 1e3]"]
BUDGET_S = {"quick": 900, "thorough": 3600}


def BOUND(tier):
    return {"alphabet": ALPHA, "scales": SCALES, "max_cells_exhaustive": 5, "max_rows_segment": 5 if tier == "quick" else 6}


def cases(tier, seed):
    out = []
    shapes = [(1,), (2,), (3,), (4,), (5,), (1, 2), (2, 2), (2, 1), (1, 1, 2), (2, 3), (3, 3, 2)]
    if tier == "thorough":
        shapes += [(3, 2), (2, 2, 2), (6,)]
    for shape in shapes:
        nd = len(shape)
        for r in range(1, nd + 1):
            for axes in itertools.combinations(range(nd), r):
                out.append({"id": f"axis-{list(shape)}-axes{list(axes)}", "kind": "axis", "shape": list(shape), "axes": list(axes)})
    nmax = 5 if tier == "quick" else 6
    for n in range(1, nmax + 1):
        for cuts in itertools.product([0, 1], repeat=n - 1):
            out.append({"id": f"segment-n{n}-cuts{''.join(map(str, cuts))}", "kind": "segment", "n": n, "cuts": list(cuts), "trail": []})
    for n in (2, 3, 4):
        for cuts in itertools.product([0, 1], repeat=n - 1):
            out.append({"id": f"segment-n{n}-cuts{''.join(map(str, cuts))}-trail2", "kind": "segment", "n": n, "cuts": list(cuts), "trail": [2]})
    # segments AND a dense choice axis that is preceded by a dense NON-choice axis (lcm's layout
    # [restricted, unrestricted discrete states, unrestricted discrete choices, continuous states])
    for n in (1, 2, 3):
        for cuts in itertools.product([0, 1], repeat=n - 1):
            out.append({"id": f"segment-n{n}-cuts{''.join(map(str, cuts))}-trail3x2-axis2", "kind": "segment", "n": n, "cuts": list(cuts), "trail": [3, 2], "axes": [2]})
            out.append({"id": f"segment-n{n}-cuts{''.join(map(str, cuts))}-trail2x3x2-axes1,3", "kind": "segment", "n": n, "cuts": list(cuts), "trail": [2, 3, 2], "axes": [1, 3]})
    for k, m in ((1, 2), (2, 2), (2, 3), (3, 2), (1, 5), (5, 1)):
        out.append({"id": f"equiv-{k}x{m}", "kind": "equiv", "k": k, "m": m})
    # call sequences: every ORDERED PAIR of distinct segmentations with the same number of rows and
    # the same number of segments, evaluated one after the other in one process (a result must not
    # depend on which segmentation was aggregated before)
    for n in range(3, nmax + 1):
        for k in range(2, n):
            out.append({"id": f"segseq-n{n}-k{k}", "kind": "segseq", "n": n, "k": k})
    return out


def _arrays(shape):
    n = int(np.prod(shape))
    if n <= 5:
        g = np.array(list(itertools.product(ALPHA, repeat=n)), dtype=np.float64)
    else:
        # structured arrays: every pair of cells sees every pair of alphabet values at least once
        rows = []
        base = list(itertools.product(range(6), repeat=4))  # 1296 patterns
        for p in base:
            rows.append([ALPHA[(p[i % 4] + (i // 4) * (1 + p[(i + 1) % 4])) % 6] for i in range(n)])
        g = np.array(rows, dtype=np.float64)
    return g.reshape((-1, *shape))


def _ref_lse(V, scale, axis):
    """Max-shifted log-sum-exp over `axis` (tuple) in extended precision. V: (N, ...)."""
    Vl = V.astype(np.longdouble)
    m = Vl.max(axis=axis, keepdims=True)
    s = np.longdouble(scale)
    r = m + s * np.log(np.exp((Vl - m) / s).sum(axis=axis, keepdims=True))
    return np.squeeze(r, axis=axis), np.squeeze(m, axis=axis)


def _judge(got, ref, mx, nchoices, scale, label, viols, arrs, extra=""):
    got = np.asarray(got, dtype=np.float64)
    ref64 = ref.astype(np.float64)
    mx64 = mx.astype(np.float64)
    tol = 1e-9 * (1 + np.abs(ref64))
    bad = ~np.isfinite(got) | (np.abs(got - ref64) > tol)
    slack = 4 * np.spacing(np.abs(mx64) + scale * np.log(max(nchoices, 1)) + 1e-300) + 1e-9 * scale
    bad |= (got < mx64 - slack) | (got > mx64 + scale * np.log(nchoices) + slack)
    if bad.any() and not viols:
        i = np.argwhere(bad.reshape(bad.shape[0], -1).any(axis=1))[0][0]
        viols.append(violation(label, "compare", "VALUE", f"values={arrs[i].tolist()} scale={scale} {extra}: got {got[i].tolist()}, reference {ref64[i].tolist()}, max {mx64[i].tolist()}"))
    return got


def _run_axis(case):
    import jax
    import jax.numpy as jnp
    from lcm.discrete_problem import _calculate_emax_extreme_value_shocks as emax

    shape = tuple(case["shape"])
    axes = tuple(case["axes"])
    A = _arrays(shape)
    nch = int(np.prod([shape[a] for a in axes]))
    baxes = tuple(a + 1 for a in axes)
    viols, cnt, dig = [], 0, []

    def call(arr, scale):
        f = jax.jit(jax.vmap(lambda v: emax(v, choice_axes=axes, choice_segments=None, params={"additive_utility_shock": {"scale": scale}})))
        return np.asarray(f(jnp.asarray(arr)))

    for scale in SCALES + SMALL_SCALES:
        ref, mx = _ref_lse(A, scale, baxes)
        got = _judge(call(A, scale), ref, mx, nch, scale, "axis-logsumexp", viols, A, f"axes={axes}")
        cnt += A.shape[0]
        dig.append(got)
        if scale in SMALL_SCALES:
            # approaches the maximum as the scale goes to zero
            lim = np.abs(got - mx.astype(np.float64)) <= scale * np.log(nch) + 1e-9 * (1 + np.abs(got))
            if not lim.all() and not viols:
                i = int(np.argwhere(~lim.reshape(len(A), -1).all(axis=1))[0][0])
                viols.append(violation("small-scale-limit", "compare", "VALUE", f"values={A[i].tolist()} scale={scale}: result {got[i].tolist()} not within scale*log(n) of the maximum"))
        if scale in (0.1, 10.0):
            for c in SHIFTS:
                shifted = call(A + c, scale)
                cnt += A.shape[0]
                okc = np.abs(shifted - (got + c)) <= 1e-9 * (1 + np.abs(got) + abs(c))
                if not okc.all() and not viols:
                    i = int(np.argwhere(~okc.reshape(len(A), -1).all(axis=1))[0][0])
                    viols.append(violation("shift-law", "compare", "VALUE", f"values={A[i].tolist()} scale={scale} shift={c}: f(v+c)={shifted[i].tolist()} but f(v)+c={(got[i] + c).tolist()}"))
    return outcome(status="violation" if viols else "ok", violations=viols, states=cnt, transitions=cnt, traces=cnt, digest=digest(dig))


def _run_segment(case):
    import jax
    import jax.numpy as jnp
    from lcm.discrete_problem import _calculate_emax_extreme_value_shocks as emax
    from lcm.discrete_problem import _segment_logsumexp

    n = case["n"]
    trail = tuple(case["trail"])
    ids = np.concatenate([[0], np.cumsum(case["cuts"])]).astype(np.int32)
    k = int(ids[-1]) + 1
    A = _arrays((n, *trail))
    seginfo = {"segment_ids": jnp.asarray(ids), "num_segments": k}
    viols, cnt, dig = [], 0, []
    # raw segment log-sum-exp (scale 1)
    f0 = jax.jit(jax.vmap(lambda v: _segment_logsumexp(v, seginfo)))
    got0 = np.asarray(f0(jnp.asarray(A)))
    for s in range(k):
        rows = np.where(ids == s)[0]
        ref, mx = _ref_lse(A[:, rows], 1.0, (1,))
        _judge(got0[:, s], ref, mx, len(rows), 1.0, "segment-logsumexp", viols, A, f"segment_ids={ids.tolist()} segment={s}")
        cnt += len(A)
    dig.append(got0)
    for scale in SCALES:
        for use_axis in ([False, True] if trail else [False]):
            if case.get("axes") and not use_axis:
                continue
            axes = (tuple(case["axes"]) if case.get("axes") else (1,)) if use_axis else None
            f = jax.jit(jax.vmap(lambda v: emax(v, choice_axes=axes, choice_segments=seginfo, params={"additive_utility_shock": {"scale": scale}})))
            got = np.asarray(f(jnp.asarray(A)))
            dig.append(got)
            for s in range(k):
                rows = np.where(ids == s)[0]
                sub = A[:, rows]
                if use_axis:
                    red = (1,) + tuple(a + 1 for a in axes)  # rows of the segment + the dense choice axes
                    ref, mx = _ref_lse(sub, scale, red)
                    nch = len(rows) * int(np.prod([trail[a - 1] for a in axes]))
                else:
                    ref, mx = _ref_lse(sub, scale, (1,))
                    nch = len(rows)
                _judge(got[:, s], ref, mx, nch, scale, "segment-emax", viols, A, f"segment_ids={ids.tolist()} segment={s} dense_choice_axis={use_axis}")
                cnt += len(A)
    return outcome(status="violation" if viols else "ok", violations=viols, states=cnt, transitions=cnt, traces=cnt, digest=digest(dig))


def _run_equiv(case):
    """Segment layout == axis layout for equal-length segments."""
    import jax
    import jax.numpy as jnp
    from lcm.discrete_problem import _calculate_emax_extreme_value_shocks as emax

    k, m = case["k"], case["m"]
    A = _arrays((k * m,))
    ids = np.repeat(np.arange(k), m).astype(np.int32)
    seginfo = {"segment_ids": jnp.asarray(ids), "num_segments": k}
    viols, cnt, dig = [], 0, []
    for scale in SCALES:
        p = {"additive_utility_shock": {"scale": scale}}
        fs = jax.jit(jax.vmap(lambda v: emax(v, choice_axes=None, choice_segments=seginfo, params=p)))
        fa = jax.jit(jax.vmap(lambda v: emax(v, choice_axes=(1,), choice_segments=None, params=p)))
        gs = np.asarray(fs(jnp.asarray(A)))
        ga = np.asarray(fa(jnp.asarray(A.reshape(-1, k, m))))
        cnt += len(A)
        dig.append(gs)
        ok = np.abs(gs - ga) <= 1e-9 * (1 + np.abs(ga))
        if not ok.all() and not viols:
            i = int(np.argwhere(~ok.all(axis=1))[0][0])
            viols.append(violation("layout-equivalence", "compare", "VALUE", f"values={A[i].tolist()} scale={scale}: segments {gs[i].tolist()} vs axes {ga[i].tolist()}"))
    return outcome(status="violation" if viols else "ok", violations=viols, states=cnt, transitions=cnt, traces=cnt, digest=digest(dig))


def _run_segseq(case):
    """All ordered pairs (s1, s2) of distinct contiguous segmentations of n rows into k segments:
    aggregate under s1, then under s2, in this process; both results against the absolute reference."""
    import jax.numpy as jnp
    import jax
    from lcm.discrete_problem import _calculate_emax_extreme_value_shocks as emax

    n, k = case["n"], case["k"]
    segs = [np.concatenate([[0], np.cumsum(c)]).astype(np.int32) for c in itertools.product([0, 1], repeat=n - 1) if sum(c) == k - 1]
    A = _arrays((n,))
    viols, cnt, dig = [], 0, []
    for i, j in itertools.permutations(range(len(segs)), 2):
        for scale in (1.0, 0.1):
            for pos, ids in (("first", segs[i]), ("second", segs[j])):
                seginfo = {"segment_ids": jnp.asarray(ids), "num_segments": k}
                f = jax.vmap(lambda v: emax(v, choice_axes=None, choice_segments=seginfo, params={"additive_utility_shock": {"scale": scale}}))
                got = np.asarray(f(jnp.asarray(A)))
                dig.append(got)
                for s in range(k):
                    rows = np.where(ids == s)[0]
                    ref, mx = _ref_lse(A[:, rows], scale, (1,))
                    _judge(got[:, s], ref, mx, len(rows), scale, "segment-sequence", viols, A, f"sequence {segs[i].tolist()} then {segs[j].tolist()}: {pos} call, segment_ids={ids.tolist()} segment={s}")
                    cnt += len(A)
    return outcome(status="violation" if viols else "ok", violations=viols, states=cnt, transitions=cnt, traces=cnt, digest=digest(dig))


def run_case(case):
    return {"axis": _run_axis, "segment": _run_segment, "equiv": _run_equiv, "segseq": _run_segseq}[case["kind"]](case)
