"""C09 - generated functions are pure: results depend only on the arguments of the call.

Engine E3 (history explorer): breadth-first enumeration of ALL call sequences up to a depth
over a call alphabet on ONE live function object (every sequence from a fresh object),
histories of model variants that share all names built in ONE process, and rebuilds in
fresh interpreters under PYTHONHASHSEED 0..15.  Oracle: the result of a call is the same
bytes whatever history preceded it (digests of the same (model, call) are compared across
ALL histories, processes and hash seeds in `finalize`), and neither the model object nor the
params pytree is modified by any call.
"""
from __future__ import annotations

import copy
import itertools
import json
import os
import subprocess
import sys

import numpy as np

from mc import compat, e1, family
from mc.explore import digest, outcome, violation

ID = "C09"
ENGINE = "E3"
RULE = (
    "state = call history on one live function object. cases: (model in {B0, fully discrete, stochastic}) x jit {on,off} x "
    "target {solve, solve_and_simulate} x first letter; inside ALL sequences of length <= 2 (thorough 3) over a 6-letter call "
    "alphabet (two parameter sets, python/numpy/jax leaves, two batches, two seeds, a params dict mutated in place between "
    "calls); model-variant histories: all ordered pairs/triples over 5 variants that share every name; rebuilds in fresh "
    "interpreters under 16 hash seeds (thorough 64). Every call is a transition; finalize compares the digest of every (model, "
    "call) across all histories/processes; non-trivial = distinct digests"
)
ASSUMPTIONS = [
    "bit-for-bit equality is demanded only between executions of the same call with the same array shapes",
    "hash seeds are a bounded set (0..15 quick / 0..63 thorough), not all 2^32; the observed argument orders are counted",
    "correctness of the fresh-object results themselves is C01/C02's business",
]
BUDGET_S = {"quick": 1500, "thorough": 7200}
PIN_HASHSEED = True
MODELS = {
    "B0": {},
    "B1": {"cc": "none", "wgrid": "disc"},
    "B2": {"h": "hd", "filt": "none"},
    "B3": {"cc": "cl", "e": 1},  # two continuous choices of unequal size + dense and restricted discrete choice
    "B4": {"filt": "none", "e": 1, "uperiod": 1},  # two unrestricted discrete choices (same kind), period in utility
    "B5": {"filt": "states", "e": 1},  # TWO restricted states (s: 3 labels, g: 2 labels), hash-seed cases only
    "B6": {"h": "three"},  # three stochastic states, hash-seed cases only
    "B7": {"h": "two"},  # two stochastic states with equal label counts
}
SEQ_MODELS = ["B0", "B1", "B2", "B3", "B4", "B7"]
SOLVE_LETTERS = ["solve(P1)", "solve(P2)", "solve(P1np)", "solve(P1jax)", "solve(M:=P1)", "solve(M:=P3 in place)"]
SIM_LETTERS = ["sim(P1,S1,0)", "sim(P2,S2,1)", "sim(P1,S2,0)", "sim(P1,S1,1)", "sim(M:=P1,S1,0)", "sim(M:=P3 in place,S1,0)"]
VARIANTS = ["A", "A-loggrid", "A-coef", "A-auxbody", "A-filter"]


def BOUND(tier):
    return {"models": MODELS, "depth": 2 if tier == "quick" else 3, "solve_letters": SOLVE_LETTERS, "sim_letters": SIM_LETTERS, "variants": VARIANTS, "hash_seeds": 16 if tier == "quick" else 64}


def cases(tier, seed):
    out = []
    depth = 2 if tier == "quick" else 3
    for m in SEQ_MODELS:
        for jit in (True, False):
            for target, letters in (("solve", SOLVE_LETTERS), ("sas", SIM_LETTERS)):
                for first in range(len(letters)):
                    out.append({"id": f"seq-{m}-jit{int(jit)}-{target}-first{first}", "kind": "seq", "model": m, "jit": jit, "target": target, "first": first, "depth": depth, "seed": seed})
    k = 2 if tier == "quick" else 3
    for L in range(2, k + 1):
        for seq in itertools.product(range(len(VARIANTS)), repeat=L):
            if len(set(seq)) == 1:
                continue
            out.append({"id": "variants-" + ">".join(VARIANTS[i] for i in seq), "kind": "variants", "seq": list(seq), "seed": seed})
    out.append({"id": "reuse-of-user-supplied-value-arrays", "kind": "reuse", "seed": seed})
    for m in MODELS:
        for hs in range(16 if tier == "quick" else 64):
            out.append({"id": f"hash-{m}-seed{hs}", "kind": "hash", "model": m, "hashseed": hs, "seed": seed})
    return out


def cost(case):
    return {"seq": 40, "variants": 6, "hash": 10, "reuse": 5}[case["kind"]]


def case_rank(case):
    return {"seq": 0, "variants": 1, "hash": 2, "reuse": 0}[case["kind"]]


# ------------------------------------------------------------------------------ helpers
def _fv(mname):
    return family.normalise(dict(family.BASE, **MODELS[mname]))


def _as_numpy(p):
    if isinstance(p, dict):
        return {k: _as_numpy(v) for k, v in p.items()}
    return np.float64(p) if isinstance(p, (int, float)) else np.asarray(p)


def _as_jax(p):
    import jax.numpy as jnp

    if isinstance(p, dict):
        return {k: _as_jax(v) for k, v in p.items()}
    return jnp.asarray(p)


def _snapshot(p):
    """Structure, leaf identities and leaf bytes of a params pytree."""
    if isinstance(p, dict):
        return ("dict", id(p), tuple((k, _snapshot(v)) for k, v in p.items()))
    return ("leaf", id(p), type(p).__name__, np.asarray(p).tobytes(), str(np.asarray(p).dtype))


def _model_snapshot(model):
    return (
        tuple((k, id(f), tuple(sorted((a, repr(b)) for a, b in getattr(f, "__dict__", {}).items() if a != "__wrapped__"))) for k, f in model.functions.items()),
        tuple((k, id(g), repr(getattr(g, "__dict__", g))) for k, g in {**model.states, **model.choices}.items()),
        model.n_periods,
    )


def _frame_digest(fr):
    return digest(list(fr.columns), [tuple(x) for x in fr.index.tolist()][:3], fr.to_numpy(dtype=np.float64))


def _p3(b):
    p = b.params("default", 0.5)
    p["utility"] = dict(p["utility"])
    for k in p["utility"]:
        p["utility"][k] = p["utility"][k] * 1.5
    return p


class Session:
    """One live function object plus the argument alphabet."""

    def __init__(self, mname, jit, target, seed):
        from lcm.entry_point import get_lcm_function

        self.b = e1.Built(_fv(mname), seed)
        self.model = self.b.model
        self.problems = []
        self.jit, self.target = jit, target
        before = _model_snapshot(self.model)
        self.f, self.tpl = get_lcm_function(self.model, targets="solve" if target == "solve" else "solve_and_simulate", debug_mode=False, jit=jit)
        if _model_snapshot(self.model) != before:
            self.problems.append("model object modified by get_lcm_function")
        self.P1 = self.b.params("default", 0.9)
        self.P2 = self.b.params("perturbed", 0.95)
        self.P3 = _p3(self.b)
        self.M = None  # the dict object that is mutated in place
        r = e1.refmodel.Ref(self.model, self.P1)
        init, _ = e1.initial_states(r, np.where(r.in_space(0), 0.0, np.nan), offgrid=True)
        n = len(next(iter(init.values())))
        i1 = [j % n for j in (0, 3, 5, 8)]
        i2 = [j % n for j in (1, 2, 4, 6, 7)]
        self.S1 = {s: v[i1] for s, v in init.items()}
        self.S2 = {s: v[i2] for s, v in init.items()}

    def rebuild(self):
        """Build the function again FROM THE SAME Model object (template and results must not change)."""
        from lcm.entry_point import get_lcm_function

        before = _model_snapshot(self.model)
        f2, tpl2 = get_lcm_function(self.model, targets="solve" if self.target == "solve" else "solve_and_simulate", debug_mode=False, jit=self.jit)
        if _model_snapshot(self.model) != before:
            self.problems.append("model object modified by the second get_lcm_function")

        def shape(t):
            return {k: (sorted(v) if isinstance(v, dict) and k != "shocks" else ({a: tuple(np.shape(b)) for a, b in v.items()} if isinstance(v, dict) else None)) for k, v in t.items()}

        if shape(tpl2) != shape(self.tpl):
            self.problems.append(f"second build from the same model returns another template: {sorted(tpl2)} vs {sorted(self.tpl)}")
        self.f = f2

    def _m(self, mutate_to_p3):
        if self.M is None:
            self.M = copy.deepcopy(self.b.params("default", 0.9))
        src = self.P3 if mutate_to_p3 else self.P1
        self.M["beta"] = src["beta"]
        for k in self.M["utility"]:
            self.M["utility"][k] = src["utility"][k]
        return self.M

    def call(self, letter):
        """Execute one letter; returns (canonical call name, digest)."""
        import jax.numpy as jnp

        if letter.startswith("solve"):
            arg = {"solve(P1)": self.P1, "solve(P2)": self.P2, "solve(P1np)": _as_numpy(self.P1), "solve(P1jax)": _as_jax(self.P1)}.get(letter)
            canon = {"solve(P1)": "solve[P1]", "solve(P2)": "solve[P2]", "solve(P1np)": "solve[P1]", "solve(P1jax)": "solve[P1]", "solve(M:=P1)": "solve[P1]", "solve(M:=P3 in place)": "solve[P3]"}[letter]
            if arg is None:
                arg = self._m(letter.endswith("in place)"))
            before, mb = _snapshot(arg), _model_snapshot(self.model)
            V = self.f(arg)
            d = digest([np.asarray(v) for v in V])
        else:
            spec = {
                "sim(P1,S1,0)": (self.P1, self.S1, 0, "sim[P1,S1,0]"),
                "sim(P2,S2,1)": (self.P2, self.S2, 1, "sim[P2,S2,1]"),
                "sim(P1,S2,0)": (self.P1, self.S2, 0, "sim[P1,S2,0]"),
                "sim(P1,S1,1)": (self.P1, self.S1, 1, "sim[P1,S1,1]"),
                "sim(M:=P1,S1,0)": (None, self.S1, 0, "sim[P1,S1,0]"),
                "sim(M:=P3 in place,S1,0)": (None, self.S1, 0, "sim[P3,S1,0]"),
            }[letter]
            arg = spec[0] if spec[0] is not None else self._m("P3" in letter)
            before, mb = _snapshot(arg), _model_snapshot(self.model)
            init = {s: jnp.asarray(v) for s, v in spec[1].items()}
            # a parameter-dependent additional target: must follow the params of THIS call
            fr = self.f(arg, initial_states=init, seed=spec[2], additional_targets=["utility"])
            d = _frame_digest(fr)
            canon = spec[3]
            # the target column must be the model function evaluated with the params of THIS call
            r = e1.refmodel.Ref(self.model, arg)
            n = len(next(iter(spec[1].values())))
            exp = np.concatenate([np.broadcast_to(np.asarray(r.ev("utility", {c: np.asarray(fr.loc[t][c].values) for c in r.states + r.choices}, t, {}), dtype=np.float64), (n,)) for t in range(r.T)])
            if not np.allclose(fr["utility"].to_numpy(dtype=np.float64), exp, rtol=1e-12, atol=1e-12):
                self.problems.append(f"additional target 'utility' of {letter} is not the model function evaluated with the params of this call")
        if _snapshot(arg) != before:
            self.problems.append(f"params pytree modified by {letter}")
        if _model_snapshot(self.model) != mb:
            self.problems.append(f"model object modified by {letter}")
        return canon, d


def _run_seq(case):
    letters = SOLVE_LETTERS if case["target"] == "solve" else SIM_LETTERS
    obs, viols, n_calls, n_seq = [], [], 0, 0
    first = case["first"]
    seqs = [(first,)]
    for L in range(2, case["depth"] + 1):
        seqs += [(first, *rest) for rest in itertools.product(range(len(letters)), repeat=L - 1)]
    for seq in seqs:
        try:
            s = Session(case["model"], case["jit"], case["target"], case["seed"])
            last = None
            for li in seq:
                last = s.call(letters[li])
                n_calls += 1
        except Exception as e:
            viols.append(violation("history", "call", "EXC:" + type(e).__name__, f"sequence {[letters[i] for i in seq]}: {str(e)[:300]}"))
            break
        n_seq += 1
        obs.append({"key": f"{case['model']}|jit{int(case['jit'])}|{last[0]}", "digest": last[1], "history": [letters[i] for i in seq]})
        if len(seq) == 1:
            # rebuild from the same Model object and repeat the call on the new function object
            try:
                s.rebuild()
                again = s.call(letters[seq[0]])
                n_calls += 1
                obs.append({"key": f"{case['model']}|jit{int(case['jit'])}|{again[0]}", "digest": again[1], "history": [letters[seq[0]], "rebuild from the same Model object", letters[seq[0]]]})
            except Exception as e:
                viols.append(violation("history", "rebuild", "EXC:" + type(e).__name__, f"second get_lcm_function from the same model: {str(e)[:300]}"))
        if s.problems and not viols:
            viols.append(violation("inputs-unmodified", "call", "MUTATION", f"sequence {[letters[i] for i in seq]}: {s.problems[0]}"))
    return outcome(status="violation" if viols else "ok", violations=viols, states=n_seq, transitions=n_calls, traces=n_seq, digest=digest([o["digest"] for o in obs]), counters={"sequences": n_seq}, obs=obs)


# ------------------------------------------------------------------------------ model variants
def variant_model(v, seed):
    """Model variants that share EVERY name (variables, functions, parameters)."""
    fv = dict(family.BASE, aux="one")
    src, states, choices, funcs, P, shocks = family.make_source(fv)
    if v == "A-loggrid":
        # same name, bounds and size as the linear grid of variant A
        states = [(n, g.replace("Lin(1, 5, 5)", "Log(1, 5, 5)")) for n, g in states]
        src = src.replace("return (w - c) + 1.0 + 0.25 * d + 0.1 * inc", "return jnp.clip((w - c) + 1.0 + 0.25 * d + 0.1 * inc, 1.0, 5.0)")
    elif v == "A-coef":
        src = src.replace("0.31 * d * (s + 1)", "0.47 * d * (s + 1)")
    elif v == "A-auxbody":
        src = src.replace("return d * wage", "return d * wage * 0.5 + 0.3")
    elif v == "A-filter":
        src = src.replace("return jnp.logical_or(d == 0, s < 2)", "return jnp.logical_or(d == 1, s > 0)")
    text = family.assemble(fv["T"], src, states, choices, funcs)
    return family.exec_model(text), e1.gen_params(P, shocks, seed, "default", 0.9)


def _variant_run(v, seed):
    import jax.numpy as jnp
    from lcm.entry_point import get_lcm_function

    model, params = variant_model(v, seed)
    solve, _ = get_lcm_function(model, targets="solve", debug_mode=False)
    V = solve(params)
    sim, _ = get_lcm_function(model, targets="simulate", debug_mode=False)
    init = {"s": jnp.asarray([0, 1, 1, 0]), "w": jnp.asarray([1.0, 2.5, 4.0, 3.3])}
    fr = sim(params, initial_states=init, vf_arr_list=V, additional_targets=["utility", "inc", "next_w"], seed=5)
    return digest([np.asarray(x) for x in V]), _frame_digest(fr)


def _run_variants(case):
    obs, viols, n = [], [], 0
    for vi in case["seq"]:
        v = VARIANTS[vi]
        try:
            ds, dsim = _variant_run(v, case["seed"])
        except Exception as e:
            viols.append(violation("history", "variants", "EXC:" + type(e).__name__, f"variant {v} after {[VARIANTS[i] for i in case['seq']]}: {str(e)[:300]}"))
            break
        n += 2
        hist = [VARIANTS[i] for i in case["seq"][: case["seq"].index(vi) + 1]]
        obs.append({"key": f"variant|{v}|solve", "digest": ds, "history": hist})
        obs.append({"key": f"variant|{v}|simulate+targets", "digest": dsim, "history": hist})
    return outcome(status="violation" if viols else "ok", violations=viols, states=len(case["seq"]), transitions=n, traces=len(case["seq"]), digest=digest([o["digest"] for o in obs]), obs=obs)


# ------------------------------------------------------------------------------ fresh interpreters / hash seeds
def _child(mname, seed):
    """Runs in a fresh interpreter: digests of every call on fresh objects + observed argument order."""
    compat.setup()
    out = {}
    for target, letters in (("solve", ["solve(P1)", "solve(P2)", "solve(M:=P3 in place)"]), ("sas", ["sim(P1,S1,0)", "sim(P2,S2,1)", "sim(P1,S2,0)", "sim(P1,S1,1)", "sim(M:=P3 in place,S1,0)"])):
        for l in letters:
            s = Session(mname, True, target, seed)
            k, d = s.call(l)
            out[f"{mname}|jit1|{k}"] = d
    # the only hash-order dependent construct: argument list built from a set
    from lcm.entry_point import get_lcm_function

    s = Session(mname, False, "solve", seed)
    try:
        fn = s.f.keywords["compute_ccv_functions"][0]
        import inspect

        order = list(inspect.signature(fn).parameters)
    except Exception:
        order = None
    # every variant is the FIRST model built in some fresh interpreter (rotation by hash seed), so a
    # module-level cache cannot contaminate all executions of a variant in the same way
    k = int(os.environ.get("PYTHONHASHSEED", "0") or 0) % len(VARIANTS)
    for v in VARIANTS[k:] + VARIANTS[:k]:
        ds, dsim = _variant_run(v, seed)
        out[f"variant|{v}|solve"] = ds
        out[f"variant|{v}|simulate+targets"] = dsim
    print("C09CHILD " + json.dumps({"digests": out, "arg_order": order}))


def _run_hash(case):
    env = dict(os.environ)
    env["PYTHONHASHSEED"] = str(case["hashseed"])
    env["PYTHONPATH"] = os.pathsep.join([compat.VERIF_ROOT] + [p for p in env.get("PYTHONPATH", "").split(os.pathsep) if p])
    r = subprocess.run([sys.executable, "-c", f"from mc.checks import c09; c09._child({case['model']!r}, {case['seed']})"], cwd=compat.VERIF_ROOT, env=env, capture_output=True, text=True, timeout=1200)
    line = [l for l in r.stdout.splitlines() if l.startswith("C09CHILD ")]
    if r.returncode != 0 or not line:
        return outcome(status="violation", violations=[violation("rebuild", "child", "EXC:child", f"fresh interpreter with PYTHONHASHSEED={case['hashseed']} failed: {(r.stderr or r.stdout)[-600:]}")], digest="exc")
    doc = json.loads(line[0][len("C09CHILD "):])
    obs = [{"key": k, "digest": d, "history": [f"fresh interpreter PYTHONHASHSEED={case['hashseed']}"]} for k, d in doc["digests"].items()]
    return outcome(states=len(obs), transitions=len(obs), traces=1, digest=digest(sorted(doc["digests"].items())), obs=obs, arg_order=doc["arg_order"])


def _run_reuse(case):
    """target 'simulate' with a USER-SUPPLIED vf_arr_list that is reused: as many agents as state grid points
    (so that output shapes can coincide with the value arrays), mini models with continuous states only."""
    import jax.numpy as jnp
    from lcm.entry_point import get_lcm_function

    viols, n_calls, obs = [], 0, []
    minis = {
        "W": ("def utility(w, c, a):\n    return jnp.log(c) + a * 0.01 * w\n\ndef next_w(w, c):\n    return 0.95 * (w - c) + 1.1\n\ndef c_constraint(c, w):\n    return c <= w + 0.2371",
              [("w", "Lin(1, 6, 12)")], [("c", "Lin(0.5, 3.0, 7)")], ["utility", "next_w", "c_constraint"]),
        "WG": ("def utility(w, g, c, a):\n    return jnp.log(c) + a * 0.01 * w + 0.05 * g\n\ndef next_w(w, c):\n    return 0.95 * (w - c) + 1.1\n\ndef next_g(g):\n    return g\n\ndef c_constraint(c, w):\n    return c <= w + 0.2371",
               [("g", "D(2)"), ("w", "Lin(1, 6, 6)")], [("c", "Lin(0.5, 3.0, 7)")], ["utility", "next_w", "next_g", "c_constraint"]),
    }
    for name, (src, states, choices, funcs) in minis.items():
        model = family.exec_model(family.assemble(3, src, states, choices, funcs))
        P1 = {"beta": 0.9, **{f: {} for f in funcs}, "utility": {"a": 1.3}}
        P2 = {"beta": 0.8, **{f: {} for f in funcs}, "utility": {"a": 2.1}}
        try:
            solve, _ = get_lcm_function(model, targets="solve", debug_mode=False)
            sim, _ = get_lcm_function(model, targets="simulate", debug_mode=False)
            V = solve(P1)
            before = [np.asarray(v).copy() for v in V]
            r = e1.refmodel.Ref(model, P1)
            mesh = np.meshgrid(*[r.grids[s] for s in r.states], indexing="ij")
            init = {s: jnp.asarray(m.reshape(-1)) for s, m in zip(r.states, mesh)}  # one agent per grid state
            frames = []
            for k, (p, label) in enumerate([(P1, "sim(P1,V)"), (P1, "sim(P1,V) again"), (P2, "sim(P2,V)"), (P1, "sim(P1,V) third")]):
                fr = sim(p, initial_states=init, vf_arr_list=V, seed=3)
                n_calls += 1
                frames.append(_frame_digest(fr))
                after = [np.asarray(v) for v in V]
                if any(a.shape != b.shape or not np.array_equal(a, b) for a, b in zip(after, before)):
                    viols.append(violation("inputs-unmodified", "call", "MUTATION", f"mini model {name}: the user-supplied value arrays changed after {label}"))
                    break
            if not viols and not (frames[0] == frames[1] == frames[3]):
                viols.append(violation("history-independence", "call", "DIGEST", f"mini model {name}: sim(P1, V) gives different frames in calls 1, 2 and 4 of one history"))
            obs.append({"key": f"mini-{name}|sim[P1,V]", "digest": frames[0] if frames else "", "history": ["sim(P1,V)"]})
        except Exception as e:
            viols.append(violation("history", "reuse", "EXC:" + type(e).__name__, f"mini model {name}: reusing the value arrays returned by solve in several simulate calls failed: {str(e)[:300]}"))
    # additional targets that depend on NO simulated variable (constant auxiliary chain with own parameters):
    # the user's params dict reaches the wrapped functions directly on this path and must not be modified
    try:
        src = ("def kbase(minimum):\n    return 2.0 * minimum\n\ndef kpens(kbase, rate):\n    return kbase * rate + 0.1\n\n"
               "def utility(w, c, kpens, a):\n    return jnp.log(c) + a * 0.01 * w + 0.02 * kpens\n\ndef next_w(w, c):\n    return 0.95 * (w - c) + 1.1\n\n"
               "def c_constraint(c, w):\n    return c <= w + 0.2371")
        funcs = ["kbase", "kpens", "utility", "next_w", "c_constraint"]
        model = family.exec_model(family.assemble(3, src, [("w", "Lin(1, 6, 5)")], [("c", "Lin(0.5, 3.0, 7)")], funcs))
        for leaf in ("python", "numpy", "jax"):
            conv = {"python": lambda x: x, "numpy": _as_numpy, "jax": _as_jax}[leaf]
            P = conv({"beta": 0.9, "kbase": {"minimum": 1.5}, "kpens": {"rate": 0.4}, "utility": {"a": 1.3}, "next_w": {}, "c_constraint": {}})
            sas, _ = get_lcm_function(model, targets="solve_and_simulate", debug_mode=False)
            before = _snapshot(P)
            fr = sas(P, initial_states={"w": jnp.asarray([1.0, 2.5, 4.0])}, additional_targets=["kpens", "kbase"])
            n_calls += 1
            if _snapshot(P) != before:
                viols.append(violation("inputs-unmodified", "call", "MUTATION", f"simulate(additional_targets=['kpens', 'kbase']) modified the params pytree ({leaf} leaves): keys now { {k: sorted(v) if isinstance(v, dict) else None for k, v in P.items()} }"))
                break
            if not np.allclose(fr["kpens"].to_numpy(dtype=np.float64), 2.0 * 1.5 * 0.4 + 0.1):
                viols.append(violation("history-independence", "call", "VALUE", "constant additional target kpens has the wrong value"))
                break
    except Exception as e:
        viols.append(violation("history", "const-targets", "EXC:" + type(e).__name__, f"additional targets without simulated inputs: {str(e)[:300]}"))
    return outcome(status="violation" if viols else "ok", violations=viols[:2], states=len(minis) + 1, transitions=n_calls, traces=len(minis) + 1, digest=digest([o["digest"] for o in obs]), obs=obs)


def run_case(case):
    return {"seq": _run_seq, "variants": _run_variants, "hash": _run_hash, "reuse": _run_reuse}[case["kind"]](case)


SINGLE_OUTCOME_OK = True


def finalize(results):
    """The same (model, call) must have the same digest in every history / process / hash seed."""
    groups = {}
    for r in results:
        for o in r.get("obs", []):
            groups.setdefault(o["key"], []).append((o["digest"], o["history"], r["case"]["id"]))
    out = []
    for key, items in sorted(groups.items()):
        # majority digest is taken as the reference point only for reporting; ANY disagreement is a violation
        counts = {}
        for d, _, _ in items:
            counts[d] = counts.get(d, 0) + 1
        if len(counts) > 1:
            major = max(counts, key=counts.get)
            for d, hist, cid in items:
                if d != major:
                    out.append((cid, violation("history-independence", "finalize", "DIGEST", f"call {key}: result after history {hist} differs from the result of the same call in {counts[major]} other histories/processes ({len(counts)} distinct results over {len(items)} executions)")))
                    break
    return out


def coverage_extra(results):
    orders = {}
    for r in results:
        if r["case"].get("kind") == "hash" and r.get("arg_order"):
            orders.setdefault(r["case"]["model"], set()).add(tuple(r["arg_order"]))
    groups = {}
    for r in results:
        for o in r.get("obs", []):
            groups.setdefault(o["key"], set()).add(tuple(o["history"]))
    return {
        "distinct_argument_orders_observed_per_model": {m: len(v) for m, v in orders.items()},
        "calls_compared_across_histories": len(groups),
        "histories_per_call_min_max": [min(len(v) for v in groups.values()), max(len(v) for v in groups.values())] if groups else [0, 0],
    }
