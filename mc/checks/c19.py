"""C19 - vectorisation dispatchers equal nested loops over named arguments.

Engine E2: ALL signatures with 1..4 (thorough 5) parameters of kinds {positional-only,
positional-or-keyword, keyword-only} in every legal kind order x ALL ordered subsets of
mapped names (productmap), all subsets (vmap_1d), all (dense, sparse, put_dense_first)
splits (spacemap); scalar / tuple / dict outputs; functools wrappers under all keyword
orders, all positional/keyword splits, every single missing / unexpected / duplicated
argument.  The mapped function returns an injective positional code sum(10^i * arg_i), so
any mis-binding or axis transposition changes the result.
"""
from __future__ import annotations

import inspect
import itertools

import numpy as np

from mc.explore import digest, outcome, violation

ID = "C19"
ENGINE = "E2"
RULE = (
    "one case per (signature kind vector, dispatcher); inside, every ordered subset of mapped names / every split / "
    "every keyword order is executed on the real dispatcher and compared entry-by-entry with nested Python loops; "
    "non-trivial = >= 1 call compared, distinct by digest of all outputs"
)
ASSUMPTIONS = [
    "functions with *args/**kwargs parameters are outside the alphabet (the wrappers do not claim to support them)",
    "vmap_1d is enumerated over signatures without keyword-only parameters when called directly (jax.vmap maps keyword arguments over axis 0 by construction; productmap/spacemap convert keyword-only parameters first)",
]
BUDGET_S = {"quick": 1200, "thorough": 5400}
NAMES = ["a", "b", "c", "d", "e"]
LENS = [2, 3, 4, 5, 6]
KINDS = {"O": inspect.Parameter.POSITIONAL_ONLY, "P": inspect.Parameter.POSITIONAL_OR_KEYWORD, "K": inspect.Parameter.KEYWORD_ONLY}


def BOUND(tier):
    return {"max_params": 4 if tier == "quick" else 5, "kinds": list(KINDS), "outputs": ["scalar", "tuple", "dict"]}


def kind_vectors(n):
    out = []
    for o in range(n + 1):
        for p in range(n + 1 - o):
            k = n - o - p
            out.append("O" * o + "P" * p + "K" * k)
    return out


def cases(tier, seed):
    nmax = 4 if tier == "quick" else 5
    out = []
    for n in range(1, nmax + 1):
        for kv in kind_vectors(n):
            out.append({"id": f"productmap-{kv}", "kind": "productmap", "kv": kv})
            out.append({"id": f"spacemap-{kv}", "kind": "spacemap", "kv": kv})
            if "K" not in kv:
                out.append({"id": f"vmap1d-{kv}", "kind": "vmap1d", "kv": kv})
            out.append({"id": f"wrappers-{kv}", "kind": "wrappers", "kv": kv})
    out.append({"id": "wrappers-defaults", "kind": "wrapdef"})
    out.append({"id": "helpers", "kind": "helpers", "kv": ""})
    return out


def cost(case):
    return len(case.get("kv", "abc")) ** 3 * (3 if case["kind"] == "spacemap" else 1)


def make_func(kv, output="scalar", rev_body=False):
    """def f(a, b, /, c, *, d): return a*1 + b*10 + c*100 + d*1000 (kinds per kv)."""
    names = NAMES[: len(kv)]
    parts = []
    seen_p = seen_k = False
    for i, (nm, k) in enumerate(zip(names, kv)):
        if k != "O" and not seen_p and "O" in kv and i == kv.count("O"):
            parts.append("/")
            seen_p = True
        if k == "K" and not seen_k:
            parts.append("*")
            seen_k = True
        parts.append(nm)
    if "O" in kv and not seen_p:
        parts.append("/")
    code = " + ".join(f"{10 ** i} * {nm}" for i, nm in enumerate(names))
    ret = {"scalar": "code", "tuple": "(code, 2 * code)", "dict": "{'x': code, 'y': -code}", "vector": "jnp.stack([code, 2 * code, 3 * code])"}[output]
    src = f"def f({', '.join(parts)}):\n    code = {code}\n    return {ret}\n"
    import jax.numpy as jnp

    ns = {"jnp": jnp}
    exec(src, ns)
    f = ns["f"]
    sig = inspect.signature(f)
    assert [p.kind for p in sig.parameters.values()] == [KINDS[k] for k in kv], (src, sig)
    return f


def code_of(vals):
    return sum(10 ** i * v for i, v in enumerate(vals))


def arrays(n):
    return [np.arange(1, LENS[i] + 1) for i in range(n)]


def outputs_equal(got, exp, output):
    if output == "scalar":
        return np.array_equal(np.asarray(got), exp)
    if output == "tuple":
        return isinstance(got, tuple) and len(got) == 2 and np.array_equal(np.asarray(got[0]), exp) and np.array_equal(np.asarray(got[1]), 2 * exp)
    if output == "vector":  # the leaf's own axis comes after all mapped axes
        return np.array_equal(np.asarray(got), np.stack([exp, 2 * exp, 3 * exp], axis=-1))
    return isinstance(got, dict) and set(got) == {"x", "y"} and np.array_equal(np.asarray(got["x"]), exp) and np.array_equal(np.asarray(got["y"]), -exp)


def _expected_product(n, mapped, arrs, scal):
    """Nested loops: axes follow the order of the listed names."""
    shape = tuple(len(arrs[NAMES.index(m)]) for m in mapped)
    exp = np.zeros(shape, dtype=np.int64)
    for idx in itertools.product(*[range(s) for s in shape]):
        vals = list(scal)
        for m, j in zip(mapped, idx):
            vals[NAMES.index(m)] = arrs[NAMES.index(m)][j]
        exp[idx] = code_of(vals[:n])
    return exp


def _run_productmap(case):
    import jax.numpy as jnp
    from lcm.dispatchers import productmap

    kv = case["kv"]
    n = len(kv)
    names = NAMES[:n]
    arrs = arrays(n)
    scal = [7, 8, 9, 7, 8][:n]
    viols, cnt, dig = [], 0, []
    for output in ("scalar", "tuple", "dict", "vector"):
        f = make_func(kv, output)
        for r in range(1, n + 1):
            for mapped in itertools.permutations(names, r):
                try:
                    g = productmap(f, list(mapped))
                    kwargs = {nm: (jnp.asarray(arrs[i]) if nm in mapped else scal[i]) for i, nm in enumerate(names)}
                    got = g(**kwargs)
                    sig_ok = list(inspect.signature(g).parameters) == names
                except Exception as e:
                    if not viols:
                        viols.append(violation("productmap", "call", "EXC:" + type(e).__name__, f"signature kinds {kv}, mapped {mapped}, output {output}: {e}"))
                    continue
                cnt += 1
                exp = _expected_product(n, mapped, arrs, scal)
                dig.append(np.asarray(got if output in ("scalar", "vector") else (got[0] if output == "tuple" else got["x"])))
                if not outputs_equal(got, exp, output) and not viols:
                    viols.append(violation("productmap", "compare", "VALUE", f"signature kinds {kv}, mapped {mapped}, output {output}: result differs from nested loops (shape {np.asarray(dig[-1]).shape} vs {exp.shape})"))
                if not sig_ok and not viols:
                    viols.append(violation("productmap", "signature", "VALUE", f"signature kinds {kv}: signature not preserved: {inspect.signature(g)}"))
        # duplicates must be rejected
        try:
            productmap(f, [names[0], names[0]])
            if not viols:
                viols.append(violation("productmap", "duplicates", "NOEXC", "duplicated variable accepted"))
        except ValueError:
            cnt += 1
    return outcome(status="violation" if viols else "ok", violations=viols, states=cnt, transitions=cnt, traces=cnt, digest=digest(dig))


def _run_vmap1d(case):
    import jax.numpy as jnp
    from lcm.dispatchers import vmap_1d

    kv = case["kv"]
    n = len(kv)
    names = NAMES[:n]
    L = 4
    arrs = [np.arange(1, L + 1) * (i + 1) % 7 + 1 for i in range(n)]
    scal = [7, 8, 9, 7, 8][:n]
    viols, cnt, dig = [], 0, []
    for output in ("scalar", "dict"):
        f = make_func(kv, output)
        for r in range(1, n + 1):
            for mapped in itertools.permutations(names, r):
                for cw in ("only_kwargs", "only_args"):
                    try:
                        g = vmap_1d(f, list(mapped), callable_with=cw)
                        vals = [(jnp.asarray(arrs[i]) if nm in mapped else scal[i]) for i, nm in enumerate(names)]
                        got = g(**dict(zip(names, vals))) if cw == "only_kwargs" else g(*vals)
                    except Exception as e:
                        if not viols:
                            viols.append(violation("vmap_1d", "call", "EXC:" + type(e).__name__, f"kinds {kv}, mapped {mapped}, callable_with {cw}: {e}"))
                        continue
                    cnt += 1
                    exp = np.array([code_of([(arrs[i][j] if nm in mapped else scal[i]) for i, nm in enumerate(names)]) for j in range(L)])
                    dig.append(np.asarray(got if output == "scalar" else got["x"]))
                    if not outputs_equal(got, exp, output) and not viols:
                        viols.append(violation("vmap_1d", "compare", "VALUE", f"kinds {kv}, mapped {mapped}, {cw}: joint mapping differs from the paired loop"))
        try:
            vmap_1d(f, [names[0], names[0]])
            if not viols:
                viols.append(violation("vmap_1d", "duplicates", "NOEXC", "duplicated variable accepted"))
        except ValueError:
            cnt += 1
        try:
            vmap_1d(f, [names[0]], callable_with="bogus")
            if not viols:
                viols.append(violation("vmap_1d", "callable_with", "NOEXC", "invalid callable_with accepted"))
        except ValueError:
            cnt += 1
    return outcome(status="violation" if viols else "ok", violations=viols, states=cnt, transitions=cnt, traces=cnt, digest=digest(dig))


def _run_spacemap(case):
    import jax.numpy as jnp
    from lcm.dispatchers import spacemap

    kv = case["kv"]
    n = len(kv)
    names = NAMES[:n]
    arrs = arrays(n)
    L = 3
    sparse_arrs = [np.arange(1, L + 1) * (i + 2) % 5 + 1 for i in range(n)]
    scal = [7, 8, 9, 7, 8][:n]
    viols, cnt, dig = [], 0, []
    funcs_by_output = {"scalar": make_func(kv, "scalar"), "vector": make_func(kv, "vector")}
    f = funcs_by_output["scalar"]
    for output, rd in itertools.product(("scalar", "vector"), range(0, n + 1)):
        f = funcs_by_output[output]
        for dense in itertools.permutations(names, rd):
            rest = [x for x in names if x not in dense]
            for rs in range(0, len(rest) + 1):
                for sparse in itertools.combinations(rest, rs):
                    if not dense and not sparse:
                        continue
                    for pdf in (False, True):
                        try:
                            g = spacemap(f, list(dense), list(sparse), put_dense_first=pdf)
                            kwargs = {}
                            for i, nm in enumerate(names):
                                kwargs[nm] = jnp.asarray(arrs[i]) if nm in dense else (jnp.asarray(sparse_arrs[i]) if nm in sparse else scal[i])
                            got = np.asarray(g(**kwargs))
                        except Exception as e:
                            if not viols:
                                viols.append(violation("spacemap", "call", "EXC:" + type(e).__name__, f"kinds {kv}, dense {dense}, sparse {sparse}, put_dense_first {pdf}: {e}"))
                            continue
                        cnt += 1
                        dshape = tuple(len(arrs[names.index(m)]) for m in dense)
                        exp_d = []
                        for j in range(L if sparse else 1):
                            sc = list(scal)
                            for nm in sparse:
                                sc[names.index(nm)] = sparse_arrs[names.index(nm)][j]
                            exp_d.append(_expected_product(n, dense, arrs, sc) if dense else np.array(code_of(sc[:n])))
                        if sparse:
                            exp = np.stack(exp_d, axis=0)
                            if pdf and dense:
                                exp = np.moveaxis(exp, 0, -1)
                        else:
                            exp = exp_d[0]
                        if output == "vector":  # the leaf axis stays last, whatever put_dense_first says
                            exp = np.stack([exp, 2 * exp, 3 * exp], axis=-1)
                        dig.append(got)
                        if (got.shape != exp.shape or not np.array_equal(got, exp)) and not viols:
                            viols.append(violation("spacemap", "compare", "VALUE", f"kinds {kv}, output {output}, dense {dense}, sparse {sparse}, put_dense_first {pdf}: got shape {got.shape}, expected {exp.shape}; values differ from nested loops"))
    for bad_d, bad_s in (([names[0]], [names[0]]), ([names[0], names[0]], []), ([], [names[0], names[0]])):
        try:
            spacemap(f, bad_d, bad_s, put_dense_first=False)
            if not viols:
                viols.append(violation("spacemap", "validation", "NOEXC", f"overlapping/duplicated variables accepted: {bad_d} {bad_s}"))
        except ValueError:
            cnt += 1
    return outcome(status="violation" if viols else "ok", violations=viols, states=cnt, transitions=cnt, traces=cnt, digest=digest(dig))


def _run_wrappers(case):
    from lcm.functools import allow_args, allow_only_kwargs

    kv = case["kv"]
    n = len(kv)
    names = NAMES[:n]
    f = make_func(kv, "scalar")
    vals = [3, 1, 4, 2, 5][:n]
    exp = code_of(vals)
    viols, cnt, dig = [], 0, []

    def bad(what, msg):
        if not viols:
            viols.append(violation(what, "compare", "VALUE", f"kinds {kv}: {msg}"))

    # ---- allow_only_kwargs
    g = allow_only_kwargs(f)
    sig = inspect.signature(g)
    if list(sig.parameters) != names or any(p.kind != inspect.Parameter.KEYWORD_ONLY for p in sig.parameters.values()):
        bad("allow_only_kwargs", f"signature {sig}")
    for order in itertools.permutations(range(n)):
        kw = {names[i]: vals[i] for i in order}
        try:
            got = g(**kw)
        except Exception as e:
            bad("allow_only_kwargs", f"keyword order {list(kw)} raised {type(e).__name__}: {e}")
            continue
        cnt += 1
        dig.append(got)
        if got != exp:
            bad("allow_only_kwargs", f"keyword order {list(kw)}: returned code {got}, expected {exp}")
    full = dict(zip(names, vals))
    for i in range(n):
        miss = {k: v for k, v in full.items() if k != names[i]}
        for label, call in (("missing " + names[i], lambda: g(**miss)), ("unexpected zz", lambda: g(**full, zz=1)), ("missing+unexpected", lambda: g(**miss, zz=1)), ("positional", lambda: g(*vals))):
            cnt += 1
            try:
                r = call()
                bad("allow_only_kwargs", f"{label}: accepted, returned {r}")
            except ValueError:
                pass
            except Exception as e:
                bad("allow_only_kwargs", f"{label}: raised {type(e).__name__} instead of ValueError")
    # ---- allow_args
    h = allow_args(f)
    sig = inspect.signature(h)
    want = [inspect.Parameter.POSITIONAL_OR_KEYWORD if k == "K" else KINDS[k] for k in kv]
    if list(sig.parameters) != names or [p.kind for p in sig.parameters.values()] != want:
        bad("allow_args", f"signature {sig}")
    for npos in range(0, n + 1):
        rest = list(range(npos, n))
        for order in itertools.permutations(rest):
            kw = {names[i]: vals[i] for i in order}
            try:
                got = h(*vals[:npos], **kw)
            except Exception as e:
                bad("allow_args", f"{npos} positional + keywords {list(kw)} raised {type(e).__name__}: {e}")
                continue
            cnt += 1
            dig.append(got)
            if got != exp:
                bad("allow_args", f"{npos} positional + keywords {list(kw)}: returned code {got}, expected {exp}")
        # single missing / unexpected / duplicated
        kw_full = {names[i]: vals[i] for i in rest}
        calls = []
        for i in rest:
            calls.append((f"missing {names[i]}", vals[:npos], {k: v for k, v in kw_full.items() if k != names[i]}))
            calls.append((f"missing {names[i]} + unexpected zz", vals[:npos], {**{k: v for k, v in kw_full.items() if k != names[i]}, "zz": 1}))
        calls.append(("unexpected zz", vals[:npos], {**kw_full, "zz": 1}))
        calls.append(("extra positional", vals[:npos] + [9] if npos == n else vals[: npos + 1] + [9], {names[i]: vals[i] for i in rest[1:]} if npos < n else {}))
        for j in range(npos):  # keyword duplicating a positional argument (with one other keyword dropped to keep the count)
            for drop in rest:
                kwd = {k: v for k, v in kw_full.items() if k != names[drop]}
                kwd[names[j]] = 99
                calls.append((f"duplicated {names[j]} (positional and keyword), {names[drop]} missing", vals[:npos], kwd))
            calls.append((f"duplicated {names[j]} (positional and keyword)", vals[:npos], {**kw_full, names[j]: 99}))
        for label, a, kw in calls:
            cnt += 1
            try:
                r = h(*a, **kw)
                bad("allow_args", f"{label}: accepted, returned {r}")
            except ValueError:
                pass
            except Exception as e:
                bad("allow_args", f"{label}: raised {type(e).__name__} instead of ValueError")
    return outcome(status="violation" if viols else "ok", violations=viols, states=cnt, transitions=cnt, traces=cnt, digest=digest(dig, kv))


def _run_helpers(case):
    from lcm.functools import all_as_args, all_as_kwargs, convert_kwargs_to_args, get_union_of_arguments

    viols, cnt, dig = [], 0, []
    for n in range(1, 5):
        names = NAMES[:n]
        vals = list(range(10, 10 + n))
        for npos in range(0, n + 1):
            for order in itertools.permutations(range(npos, n)):
                kw = {names[i]: vals[i] for i in order}
                cnt += 3
                a = all_as_args(tuple(vals[:npos]), kw, arg_names=names)
                k = all_as_kwargs(tuple(vals[:npos]), kw, arg_names=names)
                c = convert_kwargs_to_args(kw, names)
                dig.append([list(a), sorted(k.items()), c])
                if list(a) != vals and not viols:
                    viols.append(violation("all_as_args", "compare", "VALUE", f"{npos} positional, keywords {list(kw)}: {a}"))
                if k != dict(zip(names, vals)) and not viols:
                    viols.append(violation("all_as_kwargs", "compare", "VALUE", f"{npos} positional, keywords {list(kw)}: {k}"))
                if c != vals[npos:] and not viols:
                    viols.append(violation("convert_kwargs_to_args", "compare", "VALUE", f"keywords {list(kw)}: {c}"))

    def f1(a, b):
        pass

    def f2(b, c, *, d):
        pass

    cnt += 2
    if get_union_of_arguments([f1, f2]) != {"a", "b", "c", "d"} or get_union_of_arguments([]) != set():
        viols.append(violation("get_union_of_arguments", "compare", "VALUE", "wrong union"))
    return outcome(status="violation" if viols else "ok", violations=viols, states=cnt, transitions=cnt, traces=cnt, digest=digest(dig))


def _run_wrapdef(case):
    """Functions f(a, b, c) with every legal pattern of defaulted and keyword-only parameters x every
    subset of supplied keywords: the wrapper either rejects the call or returns what binding by name
    returns (the plain call f(**kw)); a call the plain function rejects must be rejected."""
    from lcm.functools import allow_args, allow_only_kwargs

    viols, cnt, dig = [], 0, []
    names = ["a", "b", "c"]
    supplied = {"a": 1, "b": 2, "c": 3}
    for nkw in range(4):
        for dmask in itertools.product([0, 1], repeat=3):
            parts = []
            for i, nm in enumerate(names):
                if i == 3 - nkw:
                    parts.append("*")
                parts.append(f"{nm}={7 + i}" if dmask[i] else nm)
            src = f"def f({', '.join(parts)}):\n    return a * 100 + b * 10 + c\n"
            ns = {}
            try:
                exec(src, ns)
            except SyntaxError:
                continue
            f = ns["f"]
            for wname, wrap in (("allow_only_kwargs", allow_only_kwargs), ("allow_args", allow_args)):
                try:
                    g = wrap(f)
                except ValueError:
                    # e.g. f(a=7, *, b, c): the all-positional signature allow_args builds is illegal;
                    # refusing to wrap is a rejection, not a mis-binding
                    dig.append("not wrapped")
                    continue
                for r in range(4):
                    for sub in itertools.combinations(names, r):
                        for order in itertools.permutations(sub):
                            kw = {k: supplied[k] for k in order}
                            cnt += 1
                            try:
                                ref = f(**kw)
                            except TypeError:
                                ref = None
                            try:
                                got = g(**kw)
                            except Exception:
                                dig.append("rejected")
                                continue
                            dig.append(got)
                            if got != ref and not viols:
                                viols.append(violation(wname, "defaults", "VALUE", f"{src.splitlines()[0]} called with {kw}: wrapper returned {got}, binding by name gives {'a rejection' if ref is None else ref}"))
    return outcome(status="violation" if viols else "ok", violations=viols, states=cnt, transitions=cnt, traces=cnt, digest=digest(dig))


def run_case(case):
    return {"wrapdef": _run_wrapdef, "productmap": _run_productmap, "vmap1d": _run_vmap1d, "spacemap": _run_spacemap, "wrappers": _run_wrappers, "helpers": _run_helpers}[case["kind"]](case)
