"""C12 - specifications are rejected up front or run to completion.

(a) rejection: ALL subsets of size <= 2 (thorough 3) of a 22-letter alphabet of documented
    rule violations applied to three base models; each must be rejected with
    ModelInitilizationError / GridInitializationError / ValueError no later than
    get_lcm_function, for all three targets.
(b) converse: every Family_1 model and every member of an odd-shape alphabet (x T in {1,2} x
    agents in {1,3}) is either rejected up front with a sanctioned exception or runs to
    completion (solve, simulate, solve_and_simulate) with parameters filled from the template.
(c) a fresh interpreter (no compatibility shim) can import lcm.entry_point.
"""
from __future__ import annotations

import itertools
import os
import subprocess
import sys

import numpy as np

from mc import compat, e1, family, refmodel
from mc.explore import digest, outcome, violation

ID = "C12"
ENGINE = "E3"
RULE = (
    "rejection: one case per (base model, subset of rule violations with |subset| <= 2 (3 thorough)); converse: one case per "
    "(odd shape, T, agents) and per Family_1 model; every case runs the real Model(...), get_lcm_function (3 targets) and the "
    "first calls; a case is non-trivial if it reached at least grid construction; distinct by (stage, exception type) digest"
)
ASSUMPTIONS = [
    "only documented rules are in the violation alphabet (e.g. a non-integer n_periods is not enumerated)",
    "sanctioned exception types: lcm.exceptions.ModelInitilizationError, GridInitializationError, ValueError; allowed stages: grid construction, Model(...), get_lcm_function(...)",
    "initial states of the converse runs are chosen inside the space of period 0 (decided by the reference)",
]
BUDGET_S = {"quick": 1500, "thorough": 5400}
SINGLE_OUTCOME_OK = False

BASES = {"B0h": {"h": "hd"}, "B1h": {"h": "hd", "cc": "none", "wgrid": "disc"}, "B2": {"h": "hd", "filt": "none"}}
VIOL = [
    "T0", "Tneg", "no_utility", "no_next", "no_next_suffix_twin", "overlap", "nongrid_state", "nongrid_choice", "noncallable",
    "stoch_cont_state", "stoch_dep_cont", "stoch_dep_param", "stoch_dep_aux", "filter_param",
    "grid_start_eq_stop", "grid_start_gt_stop", "grid_zero_points", "grid_log_nonpositive", "grid_codes_gap", "grid_not_dataclass", "grid_nan_bound", "grid_inf_bound",
]
ODD = [
    "plain", "no_choices", "no_states", "single_label_state", "single_label_choice", "single_point_cont_state", "single_point_cont_choice",
    "stoch_nodeps", "stoch_period_only", "restricted_stochastic", "filter_states_only", "only_cont_choices", "only_disc_choices",
    "next_for_nonstate", "state_only_in_transitions", "cont_var_in_filter", "name_contains_next", "filter_through_aux",
    "two_filters_one_state_only", "constant_aux", "log_state_and_choice", "transition_into_excluded_state",
    "state_named_params", "state_named_vf_arr", "state_named_state_indexer", "choice_named_keys", "state_named_value", "three_constraints", "state_names_start_with_next_letters",
]


def BOUND(tier):
    return {"violations": VIOL, "subset_size": 2 if tier == "quick" else 3, "bases": BASES, "odd_shapes": ODD, "T": [1, 2], "agents": [1, 3]}


def cases(tier, seed):
    out = []
    k = 2 if tier == "quick" else 3
    for bname in BASES:
        for r in range(1, k + 1):
            for sub in itertools.combinations(VIOL, r):
                if "T0" in sub and "Tneg" in sub:
                    continue
                out.append({"id": f"reject-{bname}-" + "+".join(sub), "kind": "reject", "base": bname, "viol": list(sub), "seed": seed})
    for odd in ODD:
        for T in (1, 2):
            for n in (1, 3):
                out.append({"id": f"odd-{odd}-T{T}-n{n}", "kind": "odd", "odd": odd, "T": T, "n": n, "seed": seed})
    seen_acc = set()
    for fv, dev in e1.family_members(1)[0] + e1.family_members(2, {k: family.FEATURES[k] for k in ["cc", "e", "wgrid"]})[0]:
        if e1.fv_id(fv) not in seen_acc:
            seen_acc.add(e1.fv_id(fv))
            out.append({"id": "accept-" + e1.fv_id(fv), "kind": "accept", "fv": fv, "seed": seed})
    out.append({"id": "import-without-shim", "kind": "import"})
    return out


def cost(case):
    return {"reject": 1, "odd": 5, "accept": 8, "import": 5}[case["kind"]]


def case_rank(case):
    return {"import": 0, "reject": 1, "odd": 2, "accept": 3}[case["kind"]]


# ------------------------------------------------------------------------------ rejection
def apply_violations(bname, viol):
    """Returns (model source text, list of violations that are applicable to this base)."""
    fv = family.normalise(dict(family.BASE, **BASES[bname]))
    src, states, choices, funcs, P, shocks = family.make_source(fv)
    T = fv["T"]
    keys = {}
    applicable = []
    has_cont = any(not g.startswith("D(") for _, g in states + choices)
    wcont = dict(states)["w"].startswith("L")
    for v in viol:
        if v == "T0":
            T = 0
        elif v == "Tneg":
            T = -1
        elif v == "no_utility":
            funcs = [f for f in funcs if f != "utility"]
        elif v == "no_next":
            funcs = [f for f in funcs if f != "next_w"]
        elif v == "no_next_suffix_twin":
            # state x has no transition, but another transition function's name ends in _x
            states = states + [("x", "D(2)"), ("lag_x", "D(2)")]
            src += "\n\ndef next_lag_x(x):\n    return x"
            funcs = funcs + ["next_lag_x"]
        elif v == "overlap":
            choices = choices + [("s", "D(2)")]
        elif v == "nongrid_state":
            states = [(n, "[1, 2, 3]" if n == "s" else g) for n, g in states]
        elif v == "nongrid_choice":
            choices = [(n, "'abc'" if n == "d" else g) for n, g in choices]
        elif v == "noncallable":
            funcs = funcs + ["3"]
            keys["3"] = "junk"
        elif v == "stoch_cont_state":
            if not wcont:
                continue
            src = src.replace("def next_w(", "@lcm.mark.stochastic\ndef next_w(", 1)
        elif v == "stoch_dep_cont":
            if not wcont:
                continue
            src = src.replace("def next_h(h, d):", "def next_h(h, w):", 1)
        elif v == "stoch_dep_param":
            src = src.replace("def next_h(h, d):", "def next_h(h, someparam):", 1) if "def next_h(h, d):" in src else src.replace("def next_h(h, w):", "def next_h(h, w, someparam):", 1)
        elif v == "stoch_dep_aux":
            src = src.replace("def next_h(h", "def next_h(inc, h", 1)
        elif v == "filter_param":
            if "_filter(" not in src:
                src += "\n\ndef p_filter(s, d, thresh):\n    return s + d <= thresh"
                funcs = funcs + ["p_filter"]
            else:
                import re

                src = re.sub(r"def (\w+_filter)\(([^)]*)\):", r"def \1(\2, thresh):", src, count=1)
        elif v.startswith("grid_"):
            bad = {
                "grid_start_eq_stop": "Lin(1, 1, 5)", "grid_start_gt_stop": "Lin(2, 1, 5)", "grid_zero_points": "Lin(1, 5, 0)",
                "grid_log_nonpositive": "Log(0, 5, 5)", "grid_codes_gap": "DiscreteGrid(make_dataclass('G', [('a', int, 0), ('b', int, 2)]))",
                "grid_not_dataclass": "DiscreteGrid(int)",
                "grid_nan_bound": "Lin(float('nan'), 5, 3)", "grid_inf_bound": "Log(1, float('inf'), 3)",
            }[v]
            # the invalid grid replaces the grid of a variable that the model really uses (an unused extra
            # variable would be rejected for another reason and mask the grid rule)
            if bad.startswith("DiscreteGrid"):
                choices = [(n, bad if n == "d" else g) for n, g in choices]
            elif any(n == "c" for n, _ in choices):
                choices = [(n, bad if n == "c" else g) for n, g in choices]
            elif wcont:
                states = [(n, bad if n == "w" else g) for n, g in states]
            else:
                continue
        applicable.append(v)
    text = family.assemble(T, src, states, choices, funcs, keys)
    return text, applicable


def _sanctioned():
    from lcm.exceptions import GridInitializationError, ModelInitilizationError

    return (ModelInitilizationError, GridInitializationError, ValueError)


def _run_reject(case):
    from lcm.entry_point import get_lcm_function

    text, applicable = apply_violations(case["base"], case["viol"])
    if not applicable:
        return outcome(status="skipped", skip_reason="violations-not-applicable-to-base", nontrivial=False)
    ok_types = _sanctioned()
    stage, exc = "accepted", None
    try:
        model = family.exec_model(text)
        stage = "get_lcm_function"
        fns = []
        for tg in ("solve", "simulate", "solve_and_simulate"):
            fns.append(get_lcm_function(model, targets=tg, debug_mode=False))
        stage = "accepted"
    except Exception as e:  # classified below
        exc = e
        if stage == "accepted":
            stage = "construction"
    viols = []
    if exc is None:
        viols.append(violation("rejected-up-front", "create", "ACCEPTED", f"specification violating {applicable} on {case['base']} was accepted by Model(...) and get_lcm_function for all targets"))
    elif not isinstance(exc, ok_types):
        viols.append(violation("rejected-up-front", stage, "EXC:" + type(exc).__name__, f"specification violating {applicable} on {case['base']}: rejected with {type(exc).__name__} (not a sanctioned type): {str(exc)[:200]}"))
    d = digest(stage, type(exc).__name__ if exc else "none", applicable)
    return outcome(status="violation" if viols else "ok", violations=viols, states=1, transitions=1 + (stage != "construction") * 3, traces=1, digest=d, counters={"rejected_at_" + stage: 1})


# ------------------------------------------------------------------------------ converse
def odd_source(odd, T):
    P = family.PRELUDE
    s_grid, w_grid, d_grid, c_grid = "D(3)", "Lin(1, 5, 5)", "D(2)", "Lin(0.5, 3.0, 4)"
    states = [("s", s_grid), ("w", w_grid)]
    choices = [("d", d_grid), ("c", c_grid)]
    F = {
        "utility": "def utility(s, w, d, c, a):\n    return jnp.log(c) + a * d * (s + 1) + 0.01 * w",
        "next_s": "def next_s(s, d):\n    return jnp.clip(s + d, 0, 2)",
        "next_w": "def next_w(w, c, d):\n    return w - c + 1.0 + 0.25 * d",
        "c_constraint": "def c_constraint(c, w):\n    return c <= w + 0.2371",
        "sd_filter": "def sd_filter(s, d):\n    return jnp.logical_or(d == 0, s < 2)",
    }
    if odd == "no_choices":
        choices = []
        F = {"utility": "def utility(s, w, a):\n    return a * s + 0.01 * w", "next_s": "def next_s(s):\n    return s", "next_w": "def next_w(w):\n    return 0.9 * w + 0.3"}
    elif odd == "no_states":
        states = []
        F = {"utility": "def utility(d, c, a):\n    return jnp.log(c) + a * d", "dc_constraint": "def dc_constraint(d, c):\n    return c <= 2.2371 + d"}
    elif odd == "single_label_state":
        states = [("s", "D(1)"), ("w", w_grid)]
        F["next_s"] = "def next_s(s):\n    return s"
        F["sd_filter"] = "def sd_filter(s, d):\n    return s + d >= 0"
    elif odd == "single_label_choice":
        choices = [("d", "D(1)"), ("c", c_grid)]
    elif odd == "single_point_cont_state":
        states = [("s", s_grid), ("w", "Lin(1, 5, 1)")]
    elif odd == "single_point_cont_choice":
        choices = [("d", d_grid), ("c", "Lin(0.5, 3.0, 1)")]
    elif odd in ("stoch_nodeps", "stoch_period_only", "restricted_stochastic"):
        states.append(("h", "D(2)"))
        F["utility"] = "def utility(s, w, d, c, h, a):\n    return jnp.log(c) + a * d * (s + 1) + 0.01 * w + 0.2 * h * d"
        deps = {"stoch_nodeps": "", "stoch_period_only": "_period", "restricted_stochastic": "h, d"}[odd]
        F["next_h"] = f"@lcm.mark.stochastic\ndef next_h({deps}):\n    pass"
        if odd == "restricted_stochastic":
            F["hd_filter"] = "def hd_filter(h, d):\n    return jnp.logical_or(h == 1, d >= 0)"
    elif odd == "filter_states_only":
        F["sd_filter"] = "def sd_filter(s):\n    return s < 2"
        F["next_s"] = "def next_s(s, d):\n    return jnp.clip(s + d, 0, 1)"
    elif odd == "transition_into_excluded_state":
        # the filter declares s = 2 impossible, but next_s can reach it (inconsistent specification)
        F["sd_filter"] = "def sd_filter(s, d):\n    return jnp.logical_and(s < 2, d >= 0)"
    elif odd in ("state_named_params", "state_named_vf_arr", "state_named_state_indexer", "state_named_value"):
        nm = odd.removeprefix("state_named_")
        states.append((nm, "D(2)"))
        F[f"next_{nm}"] = f"def next_{nm}({nm}):\n    return {nm}"
        F["utility"] = f"def utility(s, w, d, c, {nm}, a):\n    return jnp.log(c) + a * d * (s + 1) + 0.01 * w + 0.1 * {nm}"
    elif odd == "choice_named_keys":
        choices.append(("keys", "D(2)"))
        F["utility"] = "def utility(s, w, d, c, keys, a):\n    return jnp.log(c) + a * d * (s + 1) + 0.01 * w + 0.1 * keys"
    elif odd == "state_names_start_with_next_letters":
        # names that begin with characters of the string "next_" (n, e, x, t, _)
        extra = [("experience", 3), ("tenure", 2), ("net", 2), ("xp", 2), ("_z", 2)]
        for nm, k in extra:
            states.append((nm, f"D({k})"))
            F[f"next_{nm}"] = f"def next_{nm}({nm}, d):\n    return jnp.clip({nm} + d, 0, {k - 1})"
        F["utility"] = "def utility(s, w, d, c, experience, tenure, net, xp, _z, a):\n    return jnp.log(c) + a * d * (s + 1) + 0.01 * w + 0.03 * experience - 0.02 * tenure * d + 0.01 * net + 0.02 * xp + 0.015 * _z"
    elif odd == "three_constraints":
        F["lb_constraint"] = "def lb_constraint(c):\n    return c >= 0.7629"
        F["dw_constraint"] = "def dw_constraint(d, w):\n    return d <= w - 0.7371"
    elif odd == "only_cont_choices":
        choices = [("c", c_grid)]
        F["utility"] = "def utility(s, w, c, a):\n    return jnp.log(c) + a * s + 0.01 * w"
        F["next_s"] = "def next_s(s):\n    return s"
        F["next_w"] = "def next_w(w, c):\n    return w - c + 1.0"
        del F["sd_filter"]
    elif odd == "only_disc_choices":
        choices = [("d", d_grid)]
        F["utility"] = "def utility(s, w, d, a):\n    return a * d * (s + 1) + 0.01 * w"
        F["next_w"] = "def next_w(w, d):\n    return 0.8 * w + 0.5 + 0.25 * d"
        del F["c_constraint"]
    elif odd == "next_for_nonstate":
        F["next_z"] = "def next_z(s):\n    return s"
    elif odd == "state_only_in_transitions":
        states.append(("m", "D(2)"))
        F["next_m"] = "def next_m(m):\n    return m"
        F["next_s"] = "def next_s(s, d, m):\n    return jnp.clip(s + d * m, 0, 2)"
    elif odd == "cont_var_in_filter":
        F["w_filter"] = "def w_filter(w, d):\n    return jnp.logical_or(w > 0, d == 0)"
    elif odd == "name_contains_next":
        states.append(("xnext_q", "D(2)"))
        F["next_xnext_q"] = "def next_xnext_q(xnext_q):\n    return xnext_q"
        F["utility"] = "def utility(s, w, d, c, xnext_q, a):\n    return jnp.log(c) + a * d * (s + 1) + 0.01 * w + 0.1 * xnext_q"
    elif odd == "filter_through_aux":
        F["lim"] = "def lim(s):\n    return s < 2"
        F["sd_filter"] = "def sd_filter(d, lim):\n    return jnp.logical_or(d == 0, lim)"
    elif odd == "two_filters_one_state_only":
        F["s_filter"] = "def s_filter(s):\n    return s >= 0"
    elif odd == "constant_aux":
        F["kk"] = "def kk():\n    return 1.5"
        F["utility"] = "def utility(s, w, d, c, kk, a):\n    return jnp.log(c) + a * d * (s + 1) + 0.01 * w * kk"
    elif odd == "log_state_and_choice":
        states = [("s", s_grid), ("w", "Log(1, 5, 5)")]
        choices = [("d", d_grid), ("c", "Log(0.5, 3.0, 4)")]
        F["next_w"] = "def next_w(w, c, d):\n    return jnp.clip(w - c + 1.0 + 0.25 * d, 1.0, 5.0)"
    funcs = list(F)
    return family.assemble(T, "\n\n".join(F.values()), states, choices, funcs)


def fill_params(tpl, T):
    import jax.numpy as jnp

    out = {}
    j = 0
    for k, v in tpl.items():
        if k == "beta":
            out[k] = 0.9
        elif k == "shocks":
            out[k] = {}
            for s, arr in v.items():
                shp = np.shape(arr)
                x = np.arange(1, int(np.prod(shp)) + 1, dtype=np.float64).reshape(shp) % 3 + 1
                out[k][s] = jnp.asarray(x / x.sum(-1, keepdims=True))
        elif isinstance(v, dict):
            out[k] = {}
            for p in v:
                j += 1
                out[k][p] = 0.4 + 0.17 * j
        else:
            out[k] = v
    return out


def run_to_completion(model, n_agents, label, case_info, params_override=None):
    """Returns (violations, stage reached, exception type name)."""
    import jax.numpy as jnp
    from lcm.entry_point import get_lcm_function

    ok_types = _sanctioned()
    viols = []
    stage = "get_lcm_function"
    try:
        solve, tpl = get_lcm_function(model, targets="solve", debug_mode=False)
        sim, _ = get_lcm_function(model, targets="simulate", debug_mode=False)
        sas, _ = get_lcm_function(model, targets="solve_and_simulate", debug_mode=False)
    except Exception as e:
        if isinstance(e, ok_types):
            return [], "rejected:get_lcm_function", type(e).__name__
        return [violation("rejected-or-runs", "get_lcm_function", "EXC:" + type(e).__name__, f"{label}: {type(e).__name__} at function creation is not a sanctioned rejection: {str(e)[:250]}", **case_info)], "get_lcm_function", type(e).__name__
    params = fill_params(tpl, model.n_periods) if params_override is None else params_override
    try:
        stage = "solve"
        V = solve(params)
        # initial states inside the space of period 0
        r = refmodel.Ref(model, params)
        if r.states:
            mask = r.in_space(0)
            idx = np.argwhere(mask)
            pick = idx[[(j * 3) % len(idx) for j in range(n_agents)]]
            init = {s: jnp.asarray(r.grids[s][pick[:, k]]) for k, s in enumerate(r.states)}
        else:
            init = {}
        stage = "solve(jit=False)"
        solve_nojit, _ = get_lcm_function(model, targets="solve", debug_mode=False, jit=False)
        V_nojit = solve_nojit(params)
        for a, b_ in zip(V, V_nojit):  # every returned array must be usable
            if np.asarray(a).shape != np.asarray(b_).shape:
                raise ValueError(f"jit=False returns shape {np.asarray(b_).shape}, jit=True {np.asarray(a).shape}")
        stage = "simulate"
        fr = sim(params, initial_states=init, vf_arr_list=V)
        stage = "solve_and_simulate"
        fr2 = sas(params, initial_states=init)
        stage = "completed"
        if r.states and (len(fr) != n_agents * model.n_periods or len(fr2) != len(fr)):
            viols.append(violation("rejected-or-runs", "simulate", "SHAPE", f"{label}: frame has {len(fr)} rows", **case_info))
    except Exception as e:
        viols.append(violation("rejected-or-runs", stage, "EXC:" + type(e).__name__, f"{label}: accepted by Model(...) and get_lcm_function, but {stage} failed with {type(e).__name__}: {str(e)[:250]}", **case_info))
        return viols, stage, type(e).__name__
    return viols, stage, None


def _run_odd(case):
    ok_types = _sanctioned()
    text = None
    try:
        text = odd_source(case["odd"], case["T"])
        model = family.exec_model(text)
    except Exception as e:
        if isinstance(e, ok_types):
            return outcome(states=1, transitions=1, traces=1, digest=digest("rejected:construction", type(e).__name__), counters={"rejected_up_front": 1})
        return outcome(status="violation", violations=[violation("rejected-or-runs", "construction", "EXC:" + type(e).__name__, f"odd shape {case['odd']}: {type(e).__name__}: {str(e)[:250]}", odd=case["odd"])], digest="exc")
    viols, stage, exc = run_to_completion(model, case["n"], f"odd shape {case['odd']} (T={case['T']}, {case['n']} agents)", {"odd": case["odd"]})
    return outcome(status="violation" if viols else "ok", violations=viols, states=1, transitions={"completed": 6}.get(stage, 3), traces=1, digest=digest(stage, exc), counters={("completed" if stage == "completed" else "rejected_up_front" if stage.startswith("rejected") else "failed_later"): 1})


def _run_accept(case):
    b = e1.Built(case["fv"], case["seed"])
    # family members are supported models WITH their own parameter valuation (e.g. structural zeros in the
    # transition array of h=excl, so that the filter-excluded combination is never reached)
    viols, stage, exc = run_to_completion(b.model, 3, f"family model {case['id']}", {}, params_override=b.params("default"))
    return outcome(status="violation" if viols else "ok", violations=viols, states=1, transitions=6, traces=1, digest=digest(stage, exc, case["id"]), counters={("completed" if stage == "completed" else "other"): 1})


def _run_import(case):
    env = dict(os.environ)
    env.pop("PYTHONHASHSEED", None)
    r = subprocess.run([sys.executable, "-c", "from lcm.entry_point import get_lcm_function; import lcm.simulate, lcm.solve_brute, lcm.ndimage; print('IMPORT-OK')"], capture_output=True, text=True, env=env, timeout=600)
    viols = []
    if "IMPORT-OK" not in r.stdout:
        viols.append(violation("importable", "import", "EXC:ImportError", f"a fresh interpreter cannot import lcm.entry_point: {(r.stderr or r.stdout)[-400:]}"))
    return outcome(status="violation" if viols else "ok", violations=viols, states=1, transitions=1, traces=1, digest=digest("import", r.returncode))


def run_case(case):
    return {"reject": _run_reject, "odd": _run_odd, "accept": _run_accept, "import": _run_import}[case["kind"]](case)


def replay_extra(case):
    if case["kind"] == "reject":
        return {"model_source": apply_violations(case["base"], case["viol"])[0]}
    if case["kind"] == "odd":
        return {"model_source": odd_source(case["odd"], case["T"])}
    return {}
